//! Parses a loop run's history into per-thread samples (pre / timed window /
//! post) and provides the reference arithmetic shared by the loop oracles.

use divan::verif::AllocPlain;
use dsim::{
    event::{AllocKind, Phase, Which},
    Ev, Event, RunResult, UserEv,
};

use crate::looprun::LoopScn;

/// One sample of one thread: what the thread did before its start timestamp,
/// between the two timestamps, and after the end timestamp.
#[derive(Default)]
pub struct Samp<'a> {
    pub tid: usize,
    pub round: usize,
    pub pre: Vec<&'a Event>,
    pub start: Option<&'a Event>,
    pub win: Vec<&'a Event>,
    pub end: Option<&'a Event>,
    pub post: Vec<&'a Event>,
}

impl<'a> Samp<'a> {
    pub fn start_raw(&self) -> Option<u64> {
        raw_of(self.start?)
    }
    pub fn end_raw(&self) -> Option<u64> {
        raw_of(self.end?)
    }
    pub fn calls_in(&self, evs: &[&Event]) -> usize {
        evs.iter().filter(|e| matches!(e.kind, Ev::User(UserEv::CallBegin { .. }))).count()
    }
    pub fn all_calls(&self) -> usize {
        self.calls_in(&self.pre) + self.calls_in(&self.win) + self.calls_in(&self.post)
    }
    pub fn complete(&self) -> bool {
        self.start.is_some() && self.end.is_some()
    }
}

pub fn raw_of(e: &Event) -> Option<u64> {
    match e.kind {
        Ev::ClockRead { raw, .. } => Some(raw),
        _ => None,
    }
}

pub struct Parsed<'a> {
    /// The caller's unpaired first Start read (the loop's initial timestamp).
    pub initial: Option<&'a Event>,
    pub by_thread: Vec<Vec<Samp<'a>>>,
    /// What `Timer::precision()` returned (hook H6), if it was called.
    pub precision: Option<u128>,
    pub errors: Vec<String>,
    pub injected_panic: bool,
    /// How far the one-off overhead measurement moved the clock *after* the
    /// initial timestamp was taken (0 when it ran before, or was free): time
    /// that lies before "just before the first sample".
    pub setup_ticks_after_initial: u64,
}

#[derive(PartialEq, Clone, Copy)]
enum St {
    None,
    Pre,
    Win,
    Post,
}

pub fn parse<'a>(r: &'a RunResult) -> Parsed<'a> {
    let nthreads = r.threads.max(1);
    let mut p = Parsed {
        initial: None,
        by_thread: (0..nthreads).map(|_| Vec::new()).collect(),
        precision: None,
        errors: Vec::new(),
        injected_panic: false,
        setup_ticks_after_initial: 0,
    };
    let mut cur: Vec<Samp<'a>> = (0..nthreads).map(|_| Samp::default()).collect();
    let mut st = vec![St::None; nthreads];

    fn close<'a>(p: &mut Parsed<'a>, cur: &mut Samp<'a>, t: usize) {
        let mut s = std::mem::take(cur);
        // A lone clock reading with nothing around it is not a sample (but
        // the caller's very first one is kept: it may be the loop's initial
        // timestamp of a run that recorded nothing).
        let workload = |v: &Vec<&Event>| v.iter().any(|e| matches!(e.kind, Ev::User(_) | Ev::TallyCleared));
        if s.end.is_none()
            && !(t == 0 && p.by_thread[0].is_empty() && p.initial.is_none())
            && !workload(&s.pre)
            && !workload(&s.win)
            && !workload(&s.post)
        {
            return;
        }
        s.tid = t;
        s.round = p.by_thread[t].len();
        p.by_thread[t].push(s);
    }

    // Everything before the end of a prelude benchmark is not the loop
    // under test.
    let skip_to = r
        .events
        .iter()
        .rposition(|e| matches!(e.kind, Ev::User(UserEv::Mark { tag: crate::looprun::PRELUDE_END, .. })))
        .map_or(0, |p| p + 1);
    for e in &r.events[skip_to..] {
        let t = e.tid as usize;
        if t >= nthreads {
            continue;
        }
        match e.kind {
            Ev::PrecisionEnd { ps } => p.precision = Some(ps),
            Ev::ClockRead { which: Which::Start, phase: Phase::Loop, .. } => match st[t] {
                St::None | St::Post => {
                    if st[t] == St::Post {
                        close(&mut p, &mut cur[t], t);
                    }
                    cur[t].start = Some(e);
                    st[t] = St::Win;
                }
                St::Pre => {
                    cur[t].start = Some(e);
                    st[t] = St::Win;
                }
                St::Win => {
                    // A Start with no End since the previous Start: the
                    // earlier one was not a sample's start. Legitimate once,
                    // on the caller (the loop's initial timestamp).
                    if t == 0 && p.initial.is_none() && p.by_thread[0].is_empty() {
                        p.initial = cur[t].start.take();
                        // What followed the initial timestamp was
                        // preparation, not a timed section (synchronisation
                        // there is of no interest).
                        let moved = std::mem::take(&mut cur[t].win);
                        cur[t].pre.extend(moved.into_iter().filter(|e| {
                            matches!(e.kind, Ev::User(_) | Ev::TallyCleared | Ev::ClockRead { .. })
                        }));
                        cur[t].start = Some(e);
                    } else if !cur[t].win.iter().any(|e| matches!(e.kind, Ev::User(UserEv::CallBegin { .. }))) {
                        // A reading that no call followed was not the start
                        // of a timed section (the library may look at the
                        // clock between samples for its own purposes).
                        let moved = std::mem::take(&mut cur[t].win);
                        cur[t].pre.extend(moved.into_iter().filter(|e| {
                            matches!(e.kind, Ev::User(_) | Ev::TallyCleared | Ev::ClockRead { .. })
                        }));
                        cur[t].start = Some(e);
                    } else {
                        p.errors.push(format!(
                            "thread {t}: two start timestamps (seq {} and {}) without an end timestamp between them",
                            cur[t].start.map_or(0, |s| s.seq),
                            e.seq
                        ));
                        cur[t].start = Some(e);
                    }
                }
            },
            Ev::ClockRead { which: Which::End, phase: Phase::Loop, .. } => match st[t] {
                St::Win => {
                    cur[t].end = Some(e);
                    st[t] = St::Post;
                }
                _ => p.errors.push(format!(
                    "thread {t}: end timestamp (seq {}) without a start timestamp",
                    e.seq
                )),
            },
            Ev::TallyCleared
            | Ev::User(UserEv::Gen { .. })
            | Ev::User(UserEv::Count { .. }) => match st[t] {
                St::None => {
                    cur[t].pre.push(e);
                    st[t] = St::Pre;
                }
                St::Post => {
                    close(&mut p, &mut cur[t], t);
                    cur[t].pre.push(e);
                    st[t] = St::Pre;
                }
                St::Pre => cur[t].pre.push(e),
                St::Win => cur[t].win.push(e),
            },
            Ev::User(
                UserEv::CallBegin { .. }
                | UserEv::CallEnd { .. }
                | UserEv::Consume { .. }
                | UserEv::DropOutput { .. }
                | UserEv::DropInput { .. }
                | UserEv::AllocOp { .. }
                | UserEv::PanicInjected { .. },
            ) => {
                if matches!(e.kind, Ev::User(UserEv::PanicInjected { .. })) {
                    p.injected_panic = true;
                }
                match st[t] {
                    St::None => {
                        cur[t].pre.push(e);
                        st[t] = St::Pre;
                    }
                    St::Pre => cur[t].pre.push(e),
                    St::Win => cur[t].win.push(e),
                    St::Post => cur[t].post.push(e),
                }
            }
            // A thread that waits for other threads between its two
            // timestamps measures their time: potentially blocking
            // synchronisation is recorded when it falls inside a window (the
            // harness's own closures use none).
            Ev::BarrierArrive { .. }
            | Ev::BarrierLeave { .. }
            | Ev::Lock { .. }
            | Ev::CondWait { .. }
            | Ev::Park { .. }
            | Ev::Send { .. }
            | Ev::Recv { .. }
            | Ev::Join { .. }
                if st[t] == St::Win =>
            {
                cur[t].win.push(e)
            }
            _ => {}
        }
    }
    for t in 0..nthreads {
        if st[t] != St::None {
            close(&mut p, &mut cur[t], t);
        }
    }
    // A run that recorded nothing but the initial timestamp leaves a lone
    // Start on the caller.
    if p.initial.is_none() {
        if let Some(s0) = p.by_thread[0].first() {
            if p.by_thread[0].len() == 1
                && s0.end.is_none()
                && s0.pre.is_empty()
                && s0.win.iter().all(|e| !matches!(e.kind, Ev::User(_) | Ev::TallyCleared | Ev::ClockRead { .. }))
                && s0.start.is_some()
            {
                p.initial = s0.start;
                p.by_thread[0].clear();
            }
        }
    }
    if let Some(init) = p.initial {
        p.setup_ticks_after_initial = r.events[skip_to..]
            .iter()
            .filter(|e| e.seq > init.seq)
            .filter_map(|e| match e.kind {
                Ev::User(UserEv::Mark { tag: dsim::clock::OVERHEADS_MEASURED_TAG, a, .. }) => Some(a),
                _ => None,
            })
            .fold(0u64, |x, y| x.saturating_add(y));
    }
    p
}

// ---------------------------------------------------------------------------
// Reference arithmetic
// ---------------------------------------------------------------------------

pub const PICOS: u128 = 1_000_000_000_000;

/// The property's conversion: `floor((b-a) * 10^12 / f)`, zero if `b < a`.
pub fn conv(a: u64, b: u64, f: u64) -> u128 {
    if b < a {
        0
    } else {
        (b - a) as u128 * PICOS / f as u128
    }
}

pub fn dur_picos(d: (u64, u32)) -> u128 {
    (d.0 as u128 * 1_000_000_000 + d.1 as u128) * 1000
}

/// Reference model of an allocation tally (C10's model; also folds the ops a
/// thread logged inside a sample's window for C02 / C05 / C08).
#[derive(Clone, Copy, Debug, Default, PartialEq, Eq)]
pub struct RefTally {
    /// grow, shrink, alloc, dealloc: (count, bytes).
    pub t: [(u64, u64); 4],
    pub cur_count: i64,
    pub max_count: i64,
    pub cur_size: i64,
    pub max_size: i64,
    /// Reallocations whose old and new size were equal (counted under grow
    /// here; the property allows either of grow / shrink, with 0 bytes).
    pub equal_reallocs: u64,
}

impl RefTally {
    pub fn apply(&mut self, op: AllocKind, size: u64, new_size: u64) {
        match op {
            AllocKind::Alloc | AllocKind::AllocZeroed => {
                self.t[2].0 += 1;
                self.t[2].1 = self.t[2].1.wrapping_add(size);
                self.cur_count += 1;
                self.max_count = self.max_count.max(self.cur_count);
                self.cur_size = self.cur_size.wrapping_add(size as i64);
                self.max_size = self.max_size.max(self.cur_size);
            }
            AllocKind::Dealloc => {
                self.t[3].0 += 1;
                self.t[3].1 = self.t[3].1.wrapping_add(size);
                self.cur_count -= 1;
                self.cur_size = self.cur_size.wrapping_sub(size as i64);
            }
            AllocKind::Realloc => {
                if new_size >= size {
                    self.t[0].0 += 1;
                    self.t[0].1 = self.t[0].1.wrapping_add(new_size - size);
                    if new_size == size {
                        self.equal_reallocs += 1;
                    }
                } else {
                    self.t[1].0 += 1;
                    self.t[1].1 = self.t[1].1.wrapping_add(size - new_size);
                }
                self.cur_size = self
                    .cur_size
                    .wrapping_add(new_size as i64)
                    .wrapping_sub(size as i64);
                self.max_size = self.max_size.max(self.cur_size);
            }
        }
    }

    pub fn fold<'a>(events: impl IntoIterator<Item = &'a &'a Event>) -> Self {
        let mut r = RefTally::default();
        for e in events {
            if let Ev::User(UserEv::AllocOp { op, size, new_size }) = e.kind {
                r.apply(op, size, new_size);
            }
        }
        r
    }

    pub fn is_zero(&self) -> bool {
        self.t.iter().all(|&(c, s)| c == 0 && s == 0)
    }

    /// Compares against what divan stored; `None` stands for "nothing
    /// tallied". Returns a description of the first difference.
    pub fn diff(&self, got: Option<&AllocPlain>) -> Option<String> {
        let zero = AllocPlain::default();
        let g = got.unwrap_or(&zero);
        if got.is_none() && !self.is_zero() {
            return Some(format!("no allocation info stored, expected {:?}", self.t));
        }
        // Equal-size reallocations may be tallied as grow or as shrink.
        if self.equal_reallocs == 0 {
            for i in 0..4 {
                if g.tallies[i] != self.t[i] {
                    return Some(format!(
                        "{} tally (count, bytes) = {:?}, expected {:?}",
                        ["grow", "shrink", "alloc", "dealloc"][i],
                        g.tallies[i],
                        self.t[i]
                    ));
                }
            }
        } else {
            let gc = g.tallies[0].0 + g.tallies[1].0;
            let ec = self.t[0].0 + self.t[1].0;
            if gc != ec || g.tallies[0].1 != self.t[0].1 || g.tallies[1].1 != self.t[1].1 {
                return Some(format!(
                    "realloc tallies grow={:?} shrink={:?}, expected grow={:?} shrink={:?} (equal-size reallocations may count as either)",
                    g.tallies[0], g.tallies[1], self.t[0], self.t[1]
                ));
            }
            for i in 2..4 {
                if g.tallies[i] != self.t[i] {
                    return Some(format!(
                        "{} tally = {:?}, expected {:?}",
                        ["grow", "shrink", "alloc", "dealloc"][i],
                        g.tallies[i],
                        self.t[i]
                    ));
                }
            }
        }
        if g.max_count != self.max_count {
            return Some(format!("max count = {}, expected {}", g.max_count, self.max_count));
        }
        if g.max_size != self.max_size {
            return Some(format!("max size = {}, expected {}", g.max_size, self.max_size));
        }
        None
    }
}

/// Index of the stored sample for `(round, thread)`, given how many rounds
/// ran and how many samples are stored (earlier rounds are discarded while
/// tuning).
pub fn stored_index(round: usize, tid: usize, rounds: usize, stored: usize, t: usize) -> Option<usize> {
    if t == 0 || stored % t != 0 {
        return None;
    }
    let stored_rounds = stored / t;
    if stored_rounds > rounds {
        return None;
    }
    let first = rounds - stored_rounds;
    if round < first {
        None
    } else {
        Some((round - first) * t + tid)
    }
}

pub fn rounds_of(p: &Parsed, scn: &LoopScn) -> usize {
    let t = scn.eff_threads();
    (0..t).map(|i| p.by_thread.get(i).map_or(0, |v| v.len())).max().unwrap_or(0)
}
