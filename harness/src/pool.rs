//! Pool runs: histories of broadcasts on one `divan::verif::Pool`, then pool
//! drop, then the scheduler runs until quiescence. Oracles for C06 and C07.

use std::sync::{
    atomic::{AtomicU64, Ordering},
    Arc, Mutex,
};

use dsim::{
    event::{AtomOp, ParkHow},
    probe,
    rng::Rng,
    Ev, Event, Failure, FaultPlan, RunConfig, RunResult, StrategySpec, UserEv,
};
use serde_json::{json, Value};

use crate::common::{InjectedPanic, Prop, Tier, Violation};

#[derive(Clone, Copy, Debug, PartialEq, Eq)]
pub enum Api {
    Broadcast,
    ParExtend,
}

#[derive(Clone, Debug, PartialEq, Eq)]
pub struct Bcast {
    pub n: usize,
    pub api: Api,
    /// Indices whose task call panics.
    pub panics: Vec<usize>,
    /// `false`: issued by the scenario's main thread; `true`: issued by a
    /// helper thread spawned (and joined) for this one broadcast — the pool
    /// is used by different threads one after the other.
    pub helper_caller: bool,
    /// The panic payload of the call for index 0 (if that call panics) has a
    /// destructor that panics itself: `broadcast` then unwinds instead of
    /// returning — still only after every call has finished.
    pub payload_bomb: bool,
    /// With `PoolScn::lanes > 1`: the concurrent caller thread that issues
    /// this broadcast (broadcasts of one lane are issued in order).
    pub lane: u8,
}

#[derive(Clone, Debug, PartialEq, Eq)]
pub struct PoolScn {
    pub broadcasts: Vec<Bcast>,
    /// 1: the broadcasts are issued one after the other (by the main thread
    /// or by helper threads). 2..: that many caller threads use the pool *at
    /// the same time*, each issuing the broadcasts of its lane in order
    /// ("Invoking `broadcast` from two threads will cause one thread to wait
    /// for the other to finish", pool.rs) — every clause of C06 / C07 is
    /// stated per broadcast and must hold for each of them.
    pub lanes: u8,
    /// `(tid, k)`: the k-th park call of `tid` returns spuriously.
    pub spurious_parks: Vec<(usize, u32)>,
    /// Global indices of `compare_exchange_weak` calls that fail spuriously
    /// (fires only if the code under test uses weak CAS at all).
    pub cas_weak_fail: Vec<u32>,
}

#[derive(Clone, Debug, Default)]
pub struct PoolOutcome {
    /// Per broadcast: values read back by the caller (`par_extend` results,
    /// or the per-index cells for `broadcast`).
    pub results: Vec<Vec<Option<u64>>>,
    /// Per broadcast: `aux_thread_count()` after it returned.
    pub aux_counts: Vec<usize>,
}

/// In-run monitor of the pool scenarios, stated in terms of the property and
/// not of the pool's mechanism (which atomic is "the countdown", how tasks
/// reach the workers, how the caller is woken):
///
/// * when `broadcast` comes back — by returning or by unwinding — every task
///   call must have returned or panicked (`returned_early`,
///   `caller_panicked_in_broadcast`);
/// * once the caller is back from a broadcast, its stack frames below the
///   call site are gone; a thread that existed at that moment and is about to
///   operate (atomics, cloning a thread handle) on memory inside that part of
///   the caller's stack, while no newer broadcast from that stack is in
///   progress, is using a stale pointer into the dead frame
///   (`touch_after_release`). The check runs *before* the real operation, so
///   the use-after-free is reported, not executed. "Once the caller *may* have
///   resumed" is covered by the schedule search: if a worker can touch the
///   shared state after the release, some schedule lets the caller come back
///   first.
#[derive(Default)]
pub struct FrameLiveness {
    st: Mutex<FrameSt>,
}

#[derive(Default)]
struct FrameSt {
    /// Broadcasts in progress: `j -> (calling thread, n, finished calls)`.
    /// More than one only with concurrent callers.
    open: std::collections::BTreeMap<u32, (usize, u32, u32)>,
    /// Per broadcast: has the caller come back from it?
    returned: Vec<bool>,
    /// Per broadcast: the part of the caller's stack that holds the frames of
    /// the `broadcast` call (set by the harness at the call site).
    region: Vec<Option<(usize, usize)>>,
    /// Per broadcast: its caller, and the threads that existed when the
    /// caller came back (bit per sim thread).
    owner: Vec<usize>,
    alive_at_return: Vec<u32>,
    /// Threads started so far.
    started: u32,
}

impl FrameSt {
    fn grow(&mut self, j: u32) {
        let len = j as usize + 1;
        if self.returned.len() < len {
            self.returned.resize(len, false);
            self.region.resize(len, None);
            self.owner.resize(len, 0);
            self.alive_at_return.resize(len, 0);
        }
    }
    fn mark_returned(&mut self, j: u32) {
        self.grow(j);
        self.returned[j as usize] = true;
        self.alive_at_return[j as usize] = self.started;
        self.open.remove(&j);
    }
    /// The broadcast in progress that thread `t` issued, if any.
    fn open_of(&self, t: usize) -> Option<(u32, u32, u32)> {
        self.open.iter().find(|(_, o)| o.0 == t).map(|(j, o)| (*j, o.1, o.2))
    }
}

impl FrameLiveness {
    /// Called by the harness right before it calls into the pool: `top` is
    /// the address of a local of the calling function; the frames of the
    /// `broadcast` call lie just below it.
    pub fn set_frame(&self, j: u32, top: usize) {
        let mut st = self.st.lock().unwrap();
        st.grow(j);
        st.region[j as usize] = Some((top.saturating_sub(48 << 10), top.saturating_add(256)));
    }
}

impl dsim::Monitor for FrameLiveness {
    fn on_event(&self, e: &Event) -> Option<String> {
        let mut st = self.st.lock().unwrap();
        let t = e.tid as usize;
        st.started |= 1u32 << (t as u32 & 31);
        if let Ev::Spawn { child } = e.kind {
            st.started |= 1u32 << (child as u32 & 31);
        }
        // The calling thread is unwinding out of `broadcast` (the harness
        // task never lets a panic of its own escape `broadcast` except
        // through the pool's own handling of the caller's payload): a way of
        // coming back. Judged at its first operation during unwinding, before
        // anything else runs.
        if (e.unwinding || matches!(e.kind, Ev::ThreadPanic)) && !matches!(e.kind, Ev::User(_)) {
            if let Some((cur, n, ended)) = st.open_of(t) {
                if ended == n + 1 {
                    st.mark_returned(cur);
                    return None;
                }
                return Some(format!(
                    "[caller_panicked_in_broadcast] broadcast {cur} (n={n}): the calling thread panicked out of broadcast ({ended} of {} task calls finished); workers may still hold a pointer into its frame",
                    n + 1
                ));
            }
        }
        match e.kind {
            Ev::User(UserEv::BroadcastBegin { j, n }) => {
                st.grow(j);
                st.owner[j as usize] = t;
                st.open.insert(j, (t, n, 0));
            }
            Ev::User(UserEv::TaskEnd { j, .. } | UserEv::TaskPanic { j, .. }) => {
                if let Some(o) = st.open.get_mut(&j) {
                    o.2 += 1;
                }
            }
            Ev::User(UserEv::BroadcastReturn { j }) => {
                let o = st.open.get(&j).copied();
                st.mark_returned(j);
                // Nothing else has run since the caller came back.
                if let Some((_, n, ended)) = o {
                    if ended < n + 1 {
                        return Some(format!(
                            "[returned_early] broadcast {j} (n={n}) returned although {} of its {} task calls had neither returned nor panicked",
                            n + 1 - ended,
                            n + 1
                        ));
                    }
                }
            }
            _ => {}
        }
        None
    }

    fn pre_touch(&self, tid: usize, addr: usize) -> Option<String> {
        let st = self.st.lock().unwrap();
        if st.returned.is_empty() {
            return None;
        }
        // The most recent broadcasts are enough: older frames on the same
        // stack lie in the same place.
        for j in (0..st.returned.len()).rev().take(12) {
            let Some((lo, hi)) = st.region[j] else { continue };
            if !st.returned[j] || addr < lo || addr >= hi {
                continue;
            }
            if tid == st.owner[j] {
                continue; // its own stack
            }
            if st.alive_at_return[j] & (1u32 << (tid as u32 & 31)) == 0 {
                continue; // a thread created later: the memory may be its own
            }
            // While a broadcast is in progress, operations on its caller's
            // stack may belong to it.
            let belongs_to_open = st.open.keys().any(|&c| {
                matches!(st.region.get(c as usize), Some(Some((clo, chi))) if addr >= *clo && addr < *chi)
            });
            if belongs_to_open {
                continue;
            }
            return Some(format!(
                "[touch_after_release] broadcast {j}: thread {tid} is about to operate on memory in the stack frames of that broadcast's call although its caller (thread {}) is already back from it — a stale pointer into the dead frame",
                st.owner[j]
            ));
        }
        None
    }
}

/// Result type of the `par_extend` calls: its `None` is not the all-zero bit
/// pattern (the niche is in the `bool`), so an entry that was "emptied" by
/// zeroing reads as `Some((0, false))`.
type Res = (u64, bool);

fn value_of(j: usize, i: usize) -> u64 {
    0xD1_0000_0000 + (j as u64) * 1000 + i as u64
}

/// Issues broadcast `j` of the scenario on the calling simulated thread.
fn one_broadcast(
    pool: &divan::verif::Pool,
    scn: &PoolScn,
    j: usize,
    out: &Mutex<PoolOutcome>,
    reused: &Mutex<Vec<Option<Res>>>,
) {
    let b = &scn.broadcasts[j];
    let n = b.n;
    let cells: Vec<AtomicU64> = (0..=n).map(|_| AtomicU64::new(0)).collect();
    let task = |i: usize| -> u64 {
        probe::event(UserEv::TaskBegin { j: j as u32, i: i as u32 });
        if let Some(c) = cells.get(i) {
            c.store(value_of(j, i), Ordering::Relaxed);
        }
        if b.panics.contains(&i) {
            probe::fault_fired("panic_in_task");
            probe::event(UserEv::TaskPanic { j: j as u32, i: i as u32 });
            if i == 0 && b.payload_bomb {
                std::panic::resume_unwind(Box::new(DropBomb));
            }
            std::panic::resume_unwind(Box::new(InjectedPanic));
        }
        probe::event(UserEv::TaskEnd { j: j as u32, i: i as u32 });
        value_of(j, i)
    };
    probe::event(UserEv::BroadcastBegin { j: j as u32, n: n as u32 });
    // Tell the frame-liveness monitor where this call's frames will lie.
    let frame_marker = 0u8;
    if let Some(u) = dsim::sim::user() {
        if let Some(m) = u.downcast_ref::<FrameLiveness>() {
            m.set_frame(j as u32, std::hint::black_box(&frame_marker) as *const u8 as usize);
        }
    }
    let unwound;
    let results: Vec<Option<u64>> = match b.api {
        Api::Broadcast => {
            // (`broadcast` itself unwinds when the caller's payload has a
            // panicking destructor; that is a way of coming back from it.)
            let r = std::panic::catch_unwind(std::panic::AssertUnwindSafe(|| {
                pool.broadcast(n, |i| {
                    task(i);
                })
            }));
            probe::event(UserEv::BroadcastReturn { j: j as u32 });
            unwound = r.is_err();
            cells
                .iter()
                .map(|c| match c.load(Ordering::Relaxed) {
                    0 => None,
                    v => Some(v),
                })
                .collect()
        }
        Api::ParExtend => {
            // Pre-existing elements must be left alone.
            let mut guard = reused.lock().unwrap();
            let vec = &mut *guard;
            vec.clear();
            vec.push(Some((7, true)));
            vec.push(None);
            let r = std::panic::catch_unwind(std::panic::AssertUnwindSafe(|| {
                pool.par_extend(vec, n, |i| (task(i), true))
            }));
            probe::event(UserEv::BroadcastReturn { j: j as u32 });
            unwound = r.is_err();
            if vec.len() < 2 || vec[0] != Some((7, true)) || vec[1].is_some() {
                probe::fail(format!(
                    "par_extend disturbed existing elements: {:?}",
                    &vec[..vec.len().min(2)]
                ));
            }
            // An entry that is `Some` without the flag was never written by a
            // call (e.g. zeroed memory read as `Some`).
            vec[2..]
                .iter()
                .map(|e| e.map(|(v, written)| if written { v } else { 0xBAD0_0000_0000 | v }))
                .collect()
        }
    };
    if unwound && !(b.payload_bomb && b.panics.contains(&0)) {
        probe::fail(format!(
            "[broadcast_panicked] broadcast {j} (n={n}) unwound into its caller although no panic payload with a panicking destructor was involved (panicking calls: {:?})",
            b.panics
        ));
    }
    if unwound {
        probe::hit("broadcast_unwound_after_payload_drop_panicked");
    }
    let aux = pool.aux_thread_count();
    let mut o = out.lock().unwrap();
    if o.results.len() <= j {
        o.results.resize(j + 1, Vec::new());
        o.aux_counts.resize(j + 1, usize::MAX);
    }
    o.results[j] = results;
    o.aux_counts[j] = aux;
}

/// Panic payload whose destructor panics (once, and never while its thread
/// is already unwinding).
struct DropBomb;

impl Drop for DropBomb {
    fn drop(&mut self) {
        if !std::thread::panicking() {
            probe::fault_fired("panic_in_payload_drop");
            std::panic::resume_unwind(Box::new(InjectedPanic));
        }
    }
}

impl PoolScn {
    pub fn generate(rng: &mut Rng, prop: Prop, tier: Tier) -> Self {
        let thorough = tier == Tier::Thorough;
        // A slice of the runs goes to the smallest cases, whose interleaving
        // count is expected to saturate.
        let tiny = rng.chance(15, 100);
        let (max_k, max_n) = match (prop, thorough, tiny) {
            (_, _, true) => (1, 2),
            (Prop::C07, false, _) => (6, 4),
            (Prop::C07, true, _) => (10, 8),
            (_, false, _) => (4, 4),
            (_, true, _) => (6, 8),
        };
        let k = rng.range(1, max_k) as usize;
        let panic_permille = *rng.pick(&[0u64, 0, 0, 100, 300, 1000]);
        let helper_permille = *rng.pick(&[0u64, 0, 0, 250, 500]);
        // C07 histories grow and shrink.
        let mut broadcasts = Vec::with_capacity(k);
        for _ in 0..k {
            let n = if tiny && rng.chance(1, 2) {
                rng.range(1, max_n) as usize
            } else {
                rng.range(0, max_n) as usize
            };
            let api = if rng.chance(1, 2) { Api::Broadcast } else { Api::ParExtend };
            let panics = (0..=n).filter(|_| rng.chance(panic_permille, 1000)).collect();
            let helper_caller = helper_permille > 0 && rng.chance(helper_permille, 1000);
            let panics: Vec<usize> = panics;
            let payload_bomb = panics.contains(&0) && rng.chance(1, 3);
            broadcasts.push(Bcast { n, api, panics, helper_caller, payload_bomb, lane: 0 });
        }
        // One history in six is issued by two or three caller threads at
        // the same time.
        let mut lanes = 1u8;
        if k >= 2 && !tiny && rng.chance(1, 6) {
            lanes = rng.range(2, 3.min(k as u64)) as u8;
            for (j, b) in broadcasts.iter_mut().enumerate() {
                b.helper_caller = false;
                // Every lane gets at least one broadcast.
                b.lane = if j < lanes as usize { j as u8 } else { rng.range(0, lanes as u64 - 1) as u8 };
            }
        }
        let mut spurious_parks = Vec::new();
        let n_spurious = *rng.pick(&[0u32, 0, 0, 1, 1, 2]);
        for _ in 0..n_spurious {
            let t = if lanes > 1 { rng.range(1, lanes as u64) as usize } else { 0 };
            let p = (t, rng.range(0, 2 * k as u64) as u32);
            if !spurious_parks.contains(&p) {
                spurious_parks.push(p);
            }
        }
        let cas_weak_fail: Vec<u32> = if rng.chance(1, 4) {
            let mut v: Vec<u32> = (0..rng.range(1, 3)).map(|_| rng.range(0, 8) as u32).collect();
            v.sort_unstable();
            v.dedup();
            v
        } else {
            Vec::new()
        };
        PoolScn { broadcasts, lanes, spurious_parks, cas_weak_fail }
    }

    /// After removing broadcasts: lanes without a broadcast disappear.
    fn normalise_lanes(&mut self) {
        if self.lanes <= 1 {
            return;
        }
        let mut used: Vec<u8> = self.broadcasts.iter().map(|b| b.lane).collect();
        used.sort_unstable();
        used.dedup();
        for b in &mut self.broadcasts {
            b.lane = used.iter().position(|&l| l == b.lane).unwrap() as u8;
        }
        self.lanes = used.len().max(1) as u8;
    }

    pub fn max_n(&self) -> usize {
        self.broadcasts.iter().map(|b| b.n).max().unwrap_or(0)
    }

    pub fn to_json(&self) -> Value {
        json!({
            "kind": "pool",
            "broadcasts": self.broadcasts.iter().map(|b| json!({
                "n": b.n,
                "api": match b.api { Api::Broadcast => "broadcast", Api::ParExtend => "par_extend" },
                "panics": b.panics,
                "helper_caller": b.helper_caller,
                "payload_bomb": b.payload_bomb,
                "lane": b.lane,
            })).collect::<Vec<_>>(),
            "lanes": self.lanes,
            "spurious_parks": self.spurious_parks.iter().map(|&(t, k)| json!([t, k])).collect::<Vec<_>>(),
            "cas_weak_fail": self.cas_weak_fail,
        })
    }

    pub fn from_json(v: &Value) -> Option<Self> {
        let broadcasts = v["broadcasts"]
            .as_array()?
            .iter()
            .map(|b| {
                Some(Bcast {
                    n: b["n"].as_u64()? as usize,
                    api: match b["api"].as_str()? {
                        "broadcast" => Api::Broadcast,
                        "par_extend" => Api::ParExtend,
                        _ => return None,
                    },
                    panics: b["panics"]
                        .as_array()?
                        .iter()
                        .map(|x| x.as_u64().map(|x| x as usize))
                        .collect::<Option<Vec<_>>>()?,
                    helper_caller: b["helper_caller"].as_bool().unwrap_or(false),
                    payload_bomb: b.get("payload_bomb").and_then(|x| x.as_bool()).unwrap_or(false),
                    lane: b.get("lane").and_then(|x| x.as_u64()).unwrap_or(0) as u8,
                })
            })
            .collect::<Option<Vec<_>>>()?;
        let spurious_parks = v["spurious_parks"]
            .as_array()?
            .iter()
            .map(|p| Some((p[0].as_u64()? as usize, p[1].as_u64()? as u32)))
            .collect::<Option<Vec<_>>>()?;
        let cas_weak_fail = v
            .get("cas_weak_fail")
            .and_then(|x| x.as_array())
            .map(|a| a.iter().filter_map(|x| x.as_u64().map(|x| x as u32)).collect())
            .unwrap_or_default();
        let lanes = v.get("lanes").and_then(|x| x.as_u64()).unwrap_or(1).max(1) as u8;
        Some(PoolScn { broadcasts, lanes, spurious_parks, cas_weak_fail })
    }

    /// Shape key for the distinctness count.
    pub fn shape(&self) -> u64 {
        let mut h = dsim::event::Fnv::default();
        for b in &self.broadcasts {
            h.u64(b.n as u64);
            h.u64(b.api as u64 | (b.helper_caller as u64) << 4 | (b.payload_bomb as u64) << 5 | (b.lane as u64) << 8);
            for p in &b.panics {
                h.u64(*p as u64 + 1);
            }
            h.u64(u64::MAX);
        }
        for (t, k) in &self.spurious_parks {
            h.u64((*t as u64) << 32 | *k as u64);
        }
        h.finish()
    }

    pub fn est_len(&self) -> u32 {
        (self.broadcasts.iter().map(|b| 12 + 10 * b.n).sum::<usize>() + 8) as u32
    }

    pub fn run_config(&self, seed: u64, strategy: StrategySpec) -> RunConfig {
        RunConfig {
            seed,
            strategy,
            max_steps: 20_000,
            faults: FaultPlan {
                spurious_parks: self.spurious_parks.clone(),
                cas_weak_fail: self.cas_weak_fail.clone(),
                ..FaultPlan::default()
            },
            name: "pool",
            ..Self::with_monitor()
        }
    }

    /// The monitor is also the run's user context, so that the harness can
    /// tell it where each call's frames lie.
    fn with_monitor() -> RunConfig {
        let m = Arc::new(FrameLiveness::default());
        RunConfig { monitor: Some(m.clone()), user: Some(m), ..RunConfig::default() }
    }

    pub fn execute(&self, cfg: RunConfig) -> (RunResult, PoolOutcome) {
        let scn = Arc::new(self.clone());
        let out: Arc<Mutex<PoolOutcome>> = Arc::new(Mutex::new(PoolOutcome::default()));
        let out2 = out.clone();
        let result = dsim::run(
            cfg,
            Box::new(move || {
                let pool = Arc::new(divan::verif::Pool::new());
                // One result buffer reused across broadcasts (cleared in
                // between), the way the sampling loop reuses `raw_samples`:
                // a slot that `par_extend` fails to reset shows a stale value.
                let reused: Arc<Mutex<Vec<Option<Res>>>> = Arc::new(Mutex::new(Vec::new()));
                if scn.lanes > 1 {
                    // Concurrent callers: one thread per lane, each with its
                    // own result buffer, all started before any is joined.
                    let handles: Vec<_> = (0..scn.lanes)
                        .map(|lane| {
                            let (pool2, scn2, out3) = (pool.clone(), scn.clone(), out2.clone());
                            dsim::shim::thread::spawn(move || {
                                let reused: Mutex<Vec<Option<Res>>> = Mutex::new(Vec::new());
                                for j in 0..scn2.broadcasts.len() {
                                    if scn2.broadcasts[j].lane == lane {
                                        one_broadcast(&pool2, &scn2, j, &out3, &reused);
                                    }
                                }
                            })
                        })
                        .collect();
                    for h in handles {
                        let _ = h.join();
                    }
                }
                for j in 0..scn.broadcasts.len() {
                    if scn.lanes > 1 {
                        break;
                    }
                    let (pool2, scn2, out3, reused2) = (pool.clone(), scn.clone(), out2.clone(), reused.clone());
                    let one = move || one_broadcast(&pool2, &scn2, j, &out3, &reused2);
                    if scn.broadcasts[j].helper_caller {
                        // Another thread uses the pool for this broadcast.
                        let _ = dsim::shim::thread::spawn(one).join();
                    } else {
                        one();
                    }
                }
                probe::event(UserEv::PoolDrop);
                match Arc::try_unwrap(pool) {
                    Ok(p) => drop(p),
                    Err(_) => probe::fail("harness: pool still shared at drop".into()),
                }
                probe::event(UserEv::PoolDropped);
            }),
        );
        let outcome = out.lock().unwrap().clone();
        (result, outcome)
    }

    /// Candidate simplifications, most aggressive first.
    pub fn shrink_candidates(&self) -> Vec<PoolScn> {
        let mut c = Vec::new();
        // Drop a broadcast.
        for j in 0..self.broadcasts.len() {
            if self.broadcasts.len() > 1 {
                let mut s = self.clone();
                s.broadcasts.remove(j);
                s.normalise_lanes();
                c.push(s);
            }
        }
        if !self.cas_weak_fail.is_empty() {
            let mut s = self.clone();
            s.cas_weak_fail.clear();
            c.push(s);
        }
        if self.lanes > 1 {
            // One caller after the other instead of concurrent callers.
            let mut s = self.clone();
            s.lanes = 1;
            s.broadcasts.iter_mut().for_each(|b| b.lane = 0);
            c.push(s);
            // Merge the last lane into the first.
            if self.lanes > 2 {
                let mut s = self.clone();
                s.lanes -= 1;
                let last = s.lanes;
                s.broadcasts.iter_mut().for_each(|b| {
                    if b.lane == last {
                        b.lane = 0
                    }
                });
                c.push(s);
            }
        }
        // Drop a fault.
        for f in 0..self.spurious_parks.len() {
            let mut s = self.clone();
            s.spurious_parks.remove(f);
            c.push(s);
        }
        for j in 0..self.broadcasts.len() {
            let b = &self.broadcasts[j];
            for p in 0..b.panics.len() {
                let mut s = self.clone();
                s.broadcasts[j].panics.remove(p);
                c.push(s);
            }
            if b.n > 0 {
                let mut s = self.clone();
                s.broadcasts[j].n -= 1;
                let n = s.broadcasts[j].n;
                s.broadcasts[j].panics.retain(|&i| i <= n);
                c.push(s);
            }
            if b.api == Api::ParExtend {
                let mut s = self.clone();
                s.broadcasts[j].api = Api::Broadcast;
                c.push(s);
            }
            if b.helper_caller {
                let mut s = self.clone();
                s.broadcasts[j].helper_caller = false;
                c.push(s);
            }
            if b.payload_bomb {
                let mut s = self.clone();
                s.broadcasts[j].payload_bomb = false;
                c.push(s);
            }
        }
        c
    }
}

// ---------------------------------------------------------------------------
// Oracles
// ---------------------------------------------------------------------------

struct Window {
    begin: u32,
    ret: Option<u32>,
    /// The thread that issued the broadcast.
    caller: u8,
}

fn windows(events: &[Event], k: usize) -> Vec<Window> {
    let mut w: Vec<Window> =
        (0..k).map(|_| Window { begin: u32::MAX, ret: None, caller: 0 }).collect();
    for e in events {
        match e.kind {
            Ev::User(UserEv::BroadcastBegin { j, .. }) if (j as usize) < k => {
                w[j as usize].begin = e.seq;
                w[j as usize].caller = e.tid;
            }
            Ev::User(UserEv::BroadcastReturn { j }) if (j as usize) < k => {
                w[j as usize].ret = Some(e.seq)
            }
            _ => {}
        }
    }
    w
}

/// C06: exactly-once per index, thread identity, return-after-all-calls,
/// happens-before at return, result slots, frame liveness, spawn conservation.
pub fn check_c06(scn: &PoolScn, r: &RunResult, out: &PoolOutcome) -> Vec<Violation> {
    let mut v = Vec::new();
    let ev = &r.events;
    let k = scn.broadcasts.len();
    let completed = r.failure.is_none();
    let wins = windows(ev, k);

    let mut max_n_so_far = 0usize;
    for (j, b) in scn.broadcasts.iter().enumerate() {
        let w = &wins[j];
        max_n_so_far = max_n_so_far.max(b.n);
        if w.begin == u32::MAX {
            if completed {
                v.push(Violation::new("history", format!("broadcast {j} never began")));
            }
            continue;
        }
        // (1) exactly once per index, none else.
        let mut begins: Vec<Vec<&Event>> = vec![Vec::new(); b.n + 1];
        let mut ends: Vec<Vec<&Event>> = vec![Vec::new(); b.n + 1];
        for e in ev.iter() {
            match e.kind {
                Ev::User(UserEv::TaskBegin { j: jj, i }) if jj as usize == j => {
                    if (i as usize) <= b.n {
                        begins[i as usize].push(e);
                    } else {
                        v.push(Violation::new(
                            "index_out_of_range",
                            format!("broadcast {j} (n={}) called the task with index {i}", b.n),
                        ));
                    }
                }
                Ev::User(UserEv::TaskEnd { j: jj, i }) | Ev::User(UserEv::TaskPanic { j: jj, i })
                    if jj as usize == j && (i as usize) <= b.n =>
                {
                    ends[i as usize].push(e);
                }
                _ => {}
            }
        }
        let Some(ret) = w.ret else {
            // The broadcast did not return: only possible when the run failed
            // (C07's business) — nothing more to say here, but calls must
            // still not be duplicated.
            for (i, bs) in begins.iter().enumerate() {
                if bs.len() > 1 {
                    v.push(Violation::new(
                        "called_twice",
                        format!("broadcast {j}: index {i} called {} times", bs.len()),
                    ));
                }
            }
            continue;
        };
        let ret_ev = &ev[ret as usize];
        for i in 0..=b.n {
            if begins[i].len() != 1 {
                v.push(Violation::new(
                    if begins[i].is_empty() { "not_called" } else { "called_twice" },
                    format!(
                        "broadcast {j} (n={}): index {i} called {} times, expected exactly once",
                        b.n,
                        begins[i].len()
                    ),
                ));
                continue;
            }
            let be = begins[i][0];
            // (2) thread identity.
            if i == 0 && be.tid != w.caller {
                v.push(Violation::new(
                    "index0_off_caller",
                    format!(
                        "broadcast {j}: index 0 ran on sim thread {}, not on the calling thread {}",
                        be.tid, w.caller
                    ),
                ));
            }
            if i != 0 && be.tid == w.caller {
                v.push(Violation::new(
                    "aux_on_caller",
                    format!("broadcast {j}: index {i} ran on the calling thread"),
                ));
            } else if i != 0 && wins.iter().any(|w2| w2.begin != u32::MAX && w2.caller == be.tid) {
                v.push(Violation::new(
                    "aux_on_caller",
                    format!(
                        "broadcast {j}: index {i} ran on sim thread {}, which is itself a caller of the pool, not a pooled thread",
                        be.tid
                    ),
                ));
            }
            for i2 in 0..i {
                if i2 != 0 && begins[i2].len() == 1 && begins[i2][0].tid == be.tid && i != 0 {
                    v.push(Violation::new(
                        "shared_worker",
                        format!(
                            "broadcast {j}: indices {i2} and {i} both ran on sim thread {}",
                            be.tid
                        ),
                    ));
                }
            }
            // (3) return only after every call returned or panicked.
            match ends[i].first() {
                None => v.push(Violation::new(
                    "returned_early",
                    format!("broadcast {j} returned although the call for index {i} never finished"),
                )),
                Some(en) => {
                    if en.seq > ret {
                        v.push(Violation::new(
                            "returned_early",
                            format!(
                                "broadcast {j} returned (seq {ret}) before the call for index {i} finished (seq {})",
                                en.seq
                            ),
                        ));
                    } else if !en.vc.hb(en.tid as usize, &ret_ev.vc) {
                        // (4) visibility: the return happens-after every call.
                        v.push(Violation::new(
                            "missing_happens_before",
                            format!(
                                "broadcast {j}: end of call {i} (thread {}) does not happen-before the return of broadcast",
                                en.tid
                            ),
                        ));
                    }
                }
            }
        }
        // (4b)/(5) results in index order, empty exactly for panicked calls.
        if let Some(res) = out.results.get(j) {
            if res.len() != b.n + 1 {
                v.push(Violation::new(
                    "result_count",
                    format!("broadcast {j}: {} result slots for n={}", res.len(), b.n),
                ));
            } else {
                for i in 0..=b.n {
                    let expect = match b.api {
                        // `broadcast` has no result slots; the cell is
                        // written before an injected panic.
                        Api::Broadcast => Some(value_of(j, i)),
                        Api::ParExtend => {
                            if b.panics.contains(&i) {
                                None
                            } else {
                                Some(value_of(j, i))
                            }
                        }
                    };
                    if res[i] != expect {
                        v.push(Violation::new(
                            "wrong_result",
                            format!(
                                "broadcast {j} index {i}: caller read {:?}, expected {:?}",
                                res[i], expect
                            ),
                        ));
                    }
                }
            }
        } else if completed {
            v.push(Violation::new("history", format!("no results recorded for broadcast {j}")));
        }

        // (6) frame liveness is judged while the run proceeds (the
        // `FrameLiveness` monitor), in terms of the caller's return and its
        // stack, not of a particular countdown.

        // (7) spawn conservation and reuse.
        // Worker spawns are the spawns performed inside a broadcast by its
        // caller (helper caller threads are spawned by the scenario itself,
        // outside any broadcast).
        let spawned = ev
            .iter()
            .filter(|e| {
                e.seq < ret
                    && matches!(e.kind, Ev::Spawn { .. })
                    && wins.iter().any(|w2| {
                        w2.begin != u32::MAX
                            && e.seq > w2.begin
                            && w2.ret.map_or(true, |r2| e.seq < r2)
                            && e.tid == w2.caller
                    })
            })
            .count();
        if scn.lanes > 1 {
            // Concurrent callers: which broadcasts preceded this one is
            // decided by the schedule. What is fixed: the pool serves this
            // broadcast with at least n_j workers and never holds more than
            // the largest request of the whole history.
            let overall = scn.max_n();
            if let Some(&aux) = out.aux_counts.get(j) {
                if aux != usize::MAX && (aux < b.n || aux > overall) {
                    v.push(Violation::new(
                        "spawn_conservation",
                        format!(
                            "after broadcast {j} (n={}): pool holds {aux} workers, expected between {} and {overall}",
                            b.n, b.n
                        ),
                    ));
                }
            }
            continue;
        }
        if spawned != max_n_so_far {
            v.push(Violation::new(
                "spawn_conservation",
                format!(
                    "after broadcast {j}: {spawned} worker threads were created, expected max(n_1..n_j) = {max_n_so_far}"
                ),
            ));
        }
        if let Some(&aux) = out.aux_counts.get(j) {
            if aux != max_n_so_far {
                v.push(Violation::new(
                    "spawn_conservation",
                    format!("after broadcast {j}: pool holds {aux} workers, expected {max_n_so_far}"),
                ));
            }
        }
    }
    if scn.lanes > 1 && completed {
        // Created only when a broadcast needs more than exist: in total
        // exactly the largest request.
        let worker_spawns = ev
            .iter()
            .filter(|e| {
                matches!(e.kind, Ev::Spawn { .. })
                    && wins.iter().any(|w2| {
                        w2.begin != u32::MAX
                            && e.seq > w2.begin
                            && w2.ret.map_or(true, |r2| e.seq < r2)
                            && e.tid == w2.caller
                    })
            })
            .count();
        if worker_spawns != scn.max_n() {
            v.push(Violation::new(
                "spawn_conservation",
                format!(
                    "{worker_spawns} worker threads were created over the whole history, expected max(n_j) = {}",
                    scn.max_n()
                ),
            ));
        }
    }
    v.dedup();
    v
}

/// C07: bounded liveness. No deadlock, no lost wake-up, no step-budget
/// overrun, no abort; all workers exit after the pool is dropped.
pub fn check_c07(scn: &PoolScn, r: &RunResult, _out: &PoolOutcome) -> Vec<Violation> {
    let mut v = Vec::new();
    match &r.failure {
        Some(Failure::Deadlock { blocked }) => {
            let dropped = r
                .events
                .iter()
                .any(|e| matches!(e.kind, Ev::User(UserEv::PoolDropped)));
            let class = if dropped { "worker_leak" } else { "deadlock" };
            v.push(Violation::new(
                class,
                format!(
                    "{}: no thread can run; blocked: {}",
                    if dropped {
                        "pool dropped but workers never exit"
                    } else {
                        "broadcast history does not run to completion"
                    },
                    blocked
                        .iter()
                        .map(|(t, w)| format!("thread {t} in {w}"))
                        .collect::<Vec<_>>()
                        .join(", ")
                ),
            ));
        }
        Some(Failure::NoProgress { steps }) => v.push(Violation::new(
            "no_progress",
            format!("no completion within {steps} scheduling steps (livelock / unbounded spinning)"),
        )),
        Some(Failure::Abort { tid }) => v.push(Violation::new(
            "abort",
            format!("process::abort reached on sim thread {tid}"),
        )),
        Some(Failure::Invariant { message }) => {
            // The in-run monitors (frame liveness) are stated with C06's
            // clauses, but a history the simulator had to stop — because its
            // next step would have been a use of the caller's dead frame, or
            // because `broadcast` came back before its calls had finished —
            // did not run to completion either (and could not be judged
            // further: what follows is undefined behaviour).
            v.push(crate::batch::invariant_violation(message));
        }
        Some(_) | None => {}
    }
    if r.failure.is_none() {
        // Once the last fault has fired the scenario finishes within a
        // bounded number of further events.
        let last_fault = r
            .events
            .iter()
            .rev()
            .find(|e| {
                matches!(
                    e.kind,
                    Ev::Park { how: ParkHow::Spurious } | Ev::User(UserEv::TaskPanic { .. })
                )
            })
            .map(|e| e.seq as usize)
            .unwrap_or(0);
        let after = r.events.len() - last_fault;
        let bound = 4000;
        if after > bound {
            v.push(Violation::new(
                "liveness_bound",
                format!("{after} events after the last fault (bound {bound})"),
            ));
        }
        // Every spawned worker reached thread exit.
        let spawned = r.events.iter().filter(|e| matches!(e.kind, Ev::Spawn { .. })).count();
        let exited = r
            .events
            .iter()
            .filter(|e| e.tid != 0 && matches!(e.kind, Ev::Exit))
            .count();
        if exited != spawned {
            v.push(Violation::new(
                "worker_leak",
                format!("{spawned} workers spawned, {exited} exited after pool drop"),
            ));
        }
        if r.main_panic.is_some() {
            v.push(Violation::new(
                "caller_panicked",
                format!("the broadcasting thread panicked: {:?}", r.main_panic),
            ));
        }
    }
    let _ = scn;
    v
}

/// Post-hoc probes over a pool history ("this rare condition was hit").
pub fn probes(scn: &PoolScn, r: &RunResult) -> Vec<&'static str> {
    let mut hits = Vec::new();
    let ev = &r.events;
    let wins = windows(ev, scn.broadcasts.len());
    for (j, b) in scn.broadcasts.iter().enumerate() {
        let w = &wins[j];
        let Some(ret) = w.ret else { continue };
        if b.n == 0 {
            continue;
        }
        let in_win = |e: &&Event| e.seq > w.begin && e.seq < ret;
        let caller_parks: Vec<&Event> = ev
            .iter()
            .filter(in_win)
            .filter(|e| e.tid == w.caller && matches!(e.kind, Ev::Park { .. }))
            .collect();
        if caller_parks.is_empty() {
            hits.push("caller_found_zero_without_parking");
        }
        for p in &caller_parks {
            match p.kind {
                Ev::Park { how: ParkHow::Woken } => hits.push("caller_parked_and_was_woken"),
                Ev::Park { how: ParkHow::Token } => hits.push("caller_park_consumed_pending_token"),
                Ev::Park { how: ParkHow::Spurious } => hits.push("caller_park_returned_spuriously"),
                _ => {}
            }
            // Count observed by the caller right after waking.
            if let Some(l) = ev.iter().find(|e| {
                e.seq > p.seq && e.tid == w.caller && matches!(e.kind, Ev::Atomic { op: AtomOp::Load, .. })
            }) {
                if let Ev::Atomic { old, .. } = l.kind {
                    if old > 0 && l.seq < ret {
                        hits.push("caller_woke_with_count_gt_0");
                    }
                }
            }
        }
        // An unpark that lands after the broadcast already returned leaves a
        // stale token for the next one.
        let late = ev.iter().any(|e| {
            e.seq > ret
                && matches!(e.kind, Ev::Unpark { target } if target == w.caller)
                && wins.get(j + 1).map_or(true, |nw| e.seq < nw.begin || nw.begin == u32::MAX || {
                    // Unpark belongs to broadcast j if the worker has not
                    // received its next task yet.
                    !ev.iter().any(|r| {
                        r.tid == e.tid && r.seq > ret && r.seq < e.seq && matches!(r.kind, Ev::Recv { .. })
                    })
                })
        });
        if late {
            hits.push("unpark_after_return_leaves_stale_token");
        }
    }
    if ev.iter().any(|e| matches!(e.kind, Ev::User(UserEv::TaskPanic { i: 0, .. }))) {
        hits.push("panic_on_caller_index");
    }
    if ev.iter().any(|e| matches!(e.kind, Ev::User(UserEv::TaskPanic { i, .. }) if i > 0)) {
        hits.push("panic_on_worker_index");
    }
    if scn.broadcasts.iter().any(|b| b.helper_caller) {
        hits.push("pool_used_by_another_thread");
    }
    if scn.lanes > 1 {
        hits.push("concurrent_callers");
        // Two broadcasts in progress at the same time.
        let overlap = wins.iter().enumerate().any(|(a, wa)| {
            wins.iter().enumerate().any(|(b2, wb)| {
                a != b2
                    && wa.begin != u32::MAX
                    && wb.begin != u32::MAX
                    && wa.begin < wb.begin
                    && wa.ret.map_or(true, |r| wb.begin < r)
            })
        });
        if overlap {
            hits.push("broadcasts_in_progress_at_the_same_time");
        }
        // A caller's task reached a worker while that worker's previous
        // broadcast was still in progress (the worker served two callers
        // back to back).
        let back_to_back = wins.iter().enumerate().any(|(a, wa)| {
            let Some(ra) = wa.ret else { return false };
            ev.iter().any(|e| {
                e.seq > wa.begin
                    && e.seq < ra
                    && matches!(e.kind, Ev::User(UserEv::TaskBegin { j, i }) if j as usize != a && i > 0)
                    && ev.iter().any(|e2| {
                        e2.tid == e.tid
                            && e2.seq < e.seq
                            && e2.seq > wa.begin
                            && matches!(e2.kind, Ev::User(UserEv::TaskBegin { j, .. }) if j as usize == a)
                    })
            })
        });
        if back_to_back {
            hits.push("worker_served_second_caller_before_first_returned");
        }
    }
    // Reuse after shrink: a broadcast with fewer threads than exist.
    let mut mx = 0;
    for b in &scn.broadcasts {
        if b.n < mx {
            hits.push("broadcast_smaller_than_pool");
        }
        if b.n > mx && mx > 0 {
            hits.push("pool_grew_on_later_broadcast");
        }
        mx = mx.max(b.n);
    }
    hits
}

impl crate::batch::Case for PoolScn {
    type Out = PoolOutcome;

    fn generate(rng: &mut Rng, prop: Prop, tier: Tier) -> Self {
        PoolScn::generate(rng, prop, tier)
    }
    fn to_json(&self) -> Value {
        PoolScn::to_json(self)
    }
    fn from_json(v: &Value) -> Option<Self> {
        PoolScn::from_json(v)
    }
    fn shape(&self) -> u64 {
        PoolScn::shape(self)
    }
    fn est_len(&self) -> u32 {
        PoolScn::est_len(self)
    }
    fn max_threads(&self) -> usize {
        self.max_n() + 1 + self.broadcasts.iter().filter(|b| b.helper_caller).count() + if self.lanes > 1 { self.lanes as usize } else { 0 }
    }
    fn run_config(&self, seed: u64, strategy: StrategySpec) -> RunConfig {
        PoolScn::run_config(self, seed, strategy)
    }
    fn execute(&self, cfg: RunConfig) -> (RunResult, PoolOutcome) {
        PoolScn::execute(self, cfg)
    }
    fn check(&self, prop: Prop, r: &RunResult, out: &PoolOutcome) -> Vec<Violation> {
        match prop {
            Prop::C06 => {
                let mut v = check_c06(self, r, out);
                // A run that cannot complete is C07's finding, but it also
                // means "returns only after all calls" cannot be observed:
                // report it here too so that C06 never passes vacuously.
                if let Some(f) = &r.failure {
                    if let Some(fv) = crate::batch::failure_violation(f) {
                        v.push(fv);
                    }
                }
                v
            }
            Prop::C07 => check_c07(self, r, out),
            _ => Vec::new(),
        }
    }
    fn probes(&self, _prop: Prop, r: &RunResult, _out: &PoolOutcome) -> Vec<&'static str> {
        probes(self, r)
    }
    fn shrink_candidates(&self) -> Vec<Self> {
        PoolScn::shrink_candidates(self)
    }
}
