//! Loop runs: one call of a `Bencher` entry point with instrumented closures
//! under the simulator's scheduler, virtual clock and scripted allocator.

use std::{
    alloc::{GlobalAlloc, Layout},
    sync::{
        atomic::{AtomicU32, AtomicU64, Ordering::Relaxed},
        Arc, Mutex,
    },
    time::Duration,
};

use divan::{
    counter::{BytesCount, CharsCount, CyclesCount, ItemsCount},
    verif::{AllocPlain, LoopCfg, StatsHandle, StatsPlain},
    Bencher,
};
use dsim::{
    clock,
    event::{AllocKind, PanicPhase},
    probe,
    rng::{self, Rng},
    ClockCfg, ClockFault, ClockFaultKind, FaultPlan, RunConfig, RunResult, StrategySpec, UserEv,
};
use serde_json::{json, Value};

use crate::common::{j128, parse128, InjectedPanic};

// ---------------------------------------------------------------------------
// Scenario
// ---------------------------------------------------------------------------

#[derive(Clone, Copy, Debug, PartialEq, Eq, Hash)]
pub enum Entry {
    Bench,
    BenchLocal,
    BenchValues,
    BenchLocalValues,
    BenchRefs,
    BenchLocalRefs,
}

impl Entry {
    pub const ALL: [Entry; 6] = [
        Entry::Bench,
        Entry::BenchLocal,
        Entry::BenchValues,
        Entry::BenchLocalValues,
        Entry::BenchRefs,
        Entry::BenchLocalRefs,
    ];
    pub fn name(self) -> &'static str {
        match self {
            Entry::Bench => "bench",
            Entry::BenchLocal => "bench_local",
            Entry::BenchValues => "bench_values",
            Entry::BenchLocalValues => "bench_local_values",
            Entry::BenchRefs => "bench_refs",
            Entry::BenchLocalRefs => "bench_local_refs",
        }
    }
    pub fn parse(s: &str) -> Option<Entry> {
        Entry::ALL.into_iter().find(|e| e.name() == s)
    }
    pub fn is_local(self) -> bool {
        matches!(self, Entry::BenchLocal | Entry::BenchLocalValues | Entry::BenchLocalRefs)
    }
    pub fn has_inputs(self) -> bool {
        !matches!(self, Entry::Bench | Entry::BenchLocal)
    }
    pub fn by_ref(self) -> bool {
        matches!(self, Entry::BenchRefs | Entry::BenchLocalRefs)
    }
    pub fn by_value(self) -> bool {
        matches!(self, Entry::BenchValues | Entry::BenchLocalValues)
    }
}

/// Value shapes: zero-sized or sized, with or without a destructor.
#[derive(Clone, Copy, Debug, PartialEq, Eq, Hash)]
pub enum Shape {
    Z,
    Zd,
    S,
    Sd,
}

impl Shape {
    pub const ALL: [Shape; 4] = [Shape::Z, Shape::Zd, Shape::S, Shape::Sd];
    pub fn name(self) -> &'static str {
        match self {
            Shape::Z => "Z",
            Shape::Zd => "Zd",
            Shape::S => "S",
            Shape::Sd => "Sd",
        }
    }
    pub fn parse(s: &str) -> Option<Shape> {
        Shape::ALL.into_iter().find(|e| e.name() == s)
    }
    pub fn sized(self) -> bool {
        matches!(self, Shape::S | Shape::Sd)
    }
    pub fn has_drop(self) -> bool {
        matches!(self, Shape::Zd | Shape::Sd)
    }
}

#[derive(Clone, Copy, Debug, PartialEq, Eq)]
pub enum Cost {
    Zero,
    Const(u64),
    /// `base + inc * k` for the k-th use on the thread.
    Grow { base: u64, inc: u64 },
    /// `base + hash(seed, tid, k) % spread`.
    Noisy { base: u64, spread: u64, seed: u64 },
}

impl Cost {
    pub fn eval(&self, tid: usize, k: u64) -> u64 {
        match *self {
            Cost::Zero => 0,
            Cost::Const(c) => c,
            Cost::Grow { base, inc } => base.saturating_add(inc.saturating_mul(k)),
            Cost::Noisy { base, spread, seed } => {
                base + rng::mix(&[seed, tid as u64, k]) % spread.max(1)
            }
        }
    }
    fn to_json(&self) -> Value {
        match *self {
            Cost::Zero => json!("zero"),
            Cost::Const(c) => json!({ "const": c }),
            Cost::Grow { base, inc } => json!({ "grow": [base, inc] }),
            Cost::Noisy { base, spread, seed } => json!({ "noisy": [base, spread, seed] }),
        }
    }
    fn from_json(v: &Value) -> Option<Cost> {
        if v.as_str() == Some("zero") {
            return Some(Cost::Zero);
        }
        if let Some(c) = v.get("const") {
            return Some(Cost::Const(c.as_u64()?));
        }
        if let Some(g) = v.get("grow") {
            return Some(Cost::Grow { base: g[0].as_u64()?, inc: g[1].as_u64()? });
        }
        if let Some(g) = v.get("noisy") {
            return Some(Cost::Noisy {
                base: g[0].as_u64()?,
                spread: g[1].as_u64()?,
                seed: g[2].as_u64()?,
            });
        }
        None
    }
}

#[derive(Clone, Debug, PartialEq, Eq)]
pub struct PanicPlan {
    pub phase: PanicPhase,
    /// Sim thread ids (0 = caller, i = pool index i) on which it fires.
    pub tids: Vec<usize>,
    /// Per-thread index of the gen / benched call that panics.
    pub index: u32,
}

/// Bit flags for `alloc_phases`.
pub mod phase {
    pub const GEN: u8 = 1;
    pub const COUNTER: u8 = 2;
    pub const CALL: u8 = 4;
    pub const DROP_OUT: u8 = 8;
    pub const DROP_IN: u8 = 16;
    pub const ALL: u8 = 31;
}

#[derive(Clone, Debug, PartialEq)]
pub struct LoopScn {
    pub entry: Entry,
    pub ishape: Shape,
    pub oshape: Shape,
    pub sample_size: Option<u32>,
    pub sample_count: Option<u32>,
    pub threads: usize,
    pub test_mode: bool,
    pub min_time: Option<(u64, u32)>,
    pub max_time: Option<(u64, u32)>,
    pub skip_ext: Option<bool>,
    /// Kinds (bytes, chars, cycles, items) counted per input.
    pub input_counters: [bool; 4],
    /// Constant counters set through the options.
    pub const_counters: [Option<u64>; 4],
    /// Constant counters set through `Bencher::counter` (before any input
    /// counter of the same kind).
    pub bencher_counters: [Option<u64>; 4],
    pub counter_seed: u64,
    /// 0: small values, 1: any u64, 2: near u64::MAX.
    pub counter_mode: u8,
    pub cost_gen: Cost,
    pub cost_call: Cost,
    pub cost_drop: Cost,
    pub alloc_seed: u64,
    pub alloc_max_ops: u8,
    pub alloc_phases: u8,
    /// 0: 1..4096, 1: up to 2^40, 2: includes zero-size and equal-size reallocs.
    pub alloc_size_mode: u8,
    pub clock: ClockCfg,
    pub clock_faults: Vec<ClockFault>,
    pub precision_override: Option<u128>,
    pub overheads: [u128; 4],
    pub panic: Option<PanicPlan>,
    /// A second, independent panic site (other threads, possibly another
    /// phase): several threads unwinding at different points of one round.
    pub panic2: Option<PanicPlan>,
    pub spurious_parks: Vec<(usize, u32)>,
    /// `Timer::Os` instead of `Timer::Tsc`: the OS timer reads the virtual
    /// clock through hook H9 (virtual ticks are nanoseconds; the clock's
    /// frequency must be 10^9).
    pub os_timer: bool,
    /// Thread count of a small benchmark run first on the same shared
    /// context (one thread pool reused by consecutive benchmarks with
    /// different thread counts, as in a real run); 0 = none.
    pub prelude_threads: usize,
    /// Virtual ticks the one-off measurement of benchmarking overheads takes
    /// (first benchmark of a process); 0 = free.
    pub overhead_measure_ticks: u64,
}

impl Default for LoopScn {
    fn default() -> Self {
        Self {
            entry: Entry::Bench,
            ishape: Shape::Z,
            oshape: Shape::Z,
            sample_size: Some(1),
            sample_count: Some(1),
            threads: 1,
            test_mode: false,
            min_time: None,
            max_time: None,
            skip_ext: None,
            input_counters: [false; 4],
            const_counters: [None; 4],
            bencher_counters: [None; 4],
            counter_seed: 0,
            counter_mode: 0,
            cost_gen: Cost::Zero,
            cost_call: Cost::Const(10),
            cost_drop: Cost::Zero,
            alloc_seed: 0,
            alloc_max_ops: 0,
            alloc_phases: 0,
            alloc_size_mode: 0,
            clock: ClockCfg::default(),
            clock_faults: Vec::new(),
            precision_override: None,
            overheads: [0; 4],
            panic: None,
            panic2: None,
            spurious_parks: Vec::new(),
            os_timer: false,
            prelude_threads: 0,
            overhead_measure_ticks: 0,
        }
    }
}

fn dur_json(d: Option<(u64, u32)>) -> Value {
    match d {
        None => Value::Null,
        Some((s, n)) => json!([s, n]),
    }
}

fn dur_parse(v: &Value) -> Option<Option<(u64, u32)>> {
    if v.is_null() {
        return Some(None);
    }
    Some(Some((v[0].as_u64()?, v[1].as_u64()? as u32)))
}

pub fn to_duration(d: (u64, u32)) -> Duration {
    Duration::new(d.0, d.1)
}

fn opt4_json(a: &[Option<u64>; 4]) -> Value {
    json!(a.iter().map(|x| x.map(Value::from).unwrap_or(Value::Null)).collect::<Vec<_>>())
}

fn opt4_parse(v: &Value) -> Option<[Option<u64>; 4]> {
    let a = v.as_array()?;
    let mut out = [None; 4];
    for (i, x) in a.iter().enumerate().take(4) {
        out[i] = x.as_u64();
    }
    Some(out)
}

fn parse_panic(p: &Value) -> Option<Option<PanicPlan>> {
    if p.is_null() {
        return Some(None);
    }
    Some(Some(PanicPlan {
        phase: match p["phase"].as_str()? {
            "gen" => PanicPhase::Gen,
            "benched" => PanicPhase::Benched,
            "counter" => PanicPhase::Counter,
            "drop_output" => PanicPhase::DropOutput,
            "drop_input" => PanicPhase::DropInput,
            _ => return None,
        },
        tids: p["tids"]
            .as_array()?
            .iter()
            .map(|x| x.as_u64().map(|x| x as usize))
            .collect::<Option<Vec<_>>>()?,
        index: p["index"].as_u64()? as u32,
    }))
}

fn panic_phase_name(p: PanicPhase) -> &'static str {
    match p {
        PanicPhase::Gen => "gen",
        PanicPhase::Benched => "benched",
        PanicPhase::Task => "task",
        PanicPhase::Counter => "counter",
        PanicPhase::DropOutput => "drop_output",
        PanicPhase::DropInput => "drop_input",
    }
}

impl LoopScn {
    /// Thread count the loop really uses (`_local` forms force 1).
    pub fn eff_threads(&self) -> usize {
        if self.entry.is_local() {
            1
        } else {
            self.threads.max(1)
        }
    }

    /// The input shape as seen by the loop (`bench`/`bench_local` use `()`).
    pub fn eff_ishape(&self) -> Shape {
        if self.entry.has_inputs() {
            self.ishape
        } else {
            Shape::Z
        }
    }

    pub fn to_json(&self) -> Value {
        json!({
            "kind": "loop",
            "entry": self.entry.name(),
            "ishape": self.ishape.name(),
            "oshape": self.oshape.name(),
            "sample_size": self.sample_size,
            "sample_count": self.sample_count,
            "threads": self.threads,
            "test_mode": self.test_mode,
            "min_time": dur_json(self.min_time),
            "max_time": dur_json(self.max_time),
            "skip_ext": self.skip_ext,
            "input_counters": self.input_counters,
            "const_counters": opt4_json(&self.const_counters),
            "bencher_counters": opt4_json(&self.bencher_counters),
            "counter_seed": self.counter_seed,
            "counter_mode": self.counter_mode,
            "cost_gen": self.cost_gen.to_json(),
            "cost_call": self.cost_call.to_json(),
            "cost_drop": self.cost_drop.to_json(),
            "alloc": { "seed": self.alloc_seed, "max_ops": self.alloc_max_ops, "phases": self.alloc_phases, "size_mode": self.alloc_size_mode },
            "clock": {
                "frequency": self.clock.frequency, "step": self.clock.step,
                "start": self.clock.start, "read_cost": self.clock.read_cost,
                "skew": self.clock.skew,
            },
            "clock_faults": self.clock_faults.iter().map(|f| match f.kind {
                ClockFaultKind::Stall { reads } => json!({"at_read": f.at_read, "stall": reads}),
                ClockFaultKind::JumpFwd { ticks } => json!({"at_read": f.at_read, "jump_fwd": ticks}),
                ClockFaultKind::JumpBack { ticks } => json!({"at_read": f.at_read, "jump_back": ticks}),
            }).collect::<Vec<_>>(),
            "precision_override": self.precision_override.map(j128),
            "overheads": self.overheads.iter().map(|&o| j128(o)).collect::<Vec<_>>(),
            "panic": self.panic.as_ref().map(|p| json!({
                "phase": panic_phase_name(p.phase), "tids": p.tids, "index": p.index,
            })),
            "panic2": self.panic2.as_ref().map(|p| json!({
                "phase": panic_phase_name(p.phase), "tids": p.tids, "index": p.index,
            })),
            "spurious_parks": self.spurious_parks.iter().map(|&(t, k)| json!([t, k])).collect::<Vec<_>>(),
            "prelude_threads": self.prelude_threads,
            "os_timer": self.os_timer,
            "overhead_measure_ticks": self.overhead_measure_ticks,
        })
    }

    pub fn from_json(v: &Value) -> Option<Self> {
        let b4 = |v: &Value| -> Option<[bool; 4]> {
            let a = v.as_array()?;
            Some([a[0].as_bool()?, a[1].as_bool()?, a[2].as_bool()?, a[3].as_bool()?])
        };
        let clock = &v["clock"];
        let mut overheads = [0u128; 4];
        for (i, o) in v["overheads"].as_array()?.iter().enumerate().take(4) {
            overheads[i] = parse128(o)?;
        }
        Some(LoopScn {
            entry: Entry::parse(v["entry"].as_str()?)?,
            ishape: Shape::parse(v["ishape"].as_str()?)?,
            oshape: Shape::parse(v["oshape"].as_str()?)?,
            sample_size: v["sample_size"].as_u64().map(|x| x as u32),
            sample_count: v["sample_count"].as_u64().map(|x| x as u32),
            threads: v["threads"].as_u64()? as usize,
            test_mode: v["test_mode"].as_bool()?,
            min_time: dur_parse(&v["min_time"])?,
            max_time: dur_parse(&v["max_time"])?,
            skip_ext: v["skip_ext"].as_bool(),
            input_counters: b4(&v["input_counters"])?,
            const_counters: opt4_parse(&v["const_counters"])?,
            bencher_counters: opt4_parse(&v["bencher_counters"])?,
            counter_seed: v["counter_seed"].as_u64()?,
            counter_mode: v["counter_mode"].as_u64()? as u8,
            cost_gen: Cost::from_json(&v["cost_gen"])?,
            cost_call: Cost::from_json(&v["cost_call"])?,
            cost_drop: Cost::from_json(&v["cost_drop"])?,
            alloc_seed: v["alloc"]["seed"].as_u64()?,
            alloc_max_ops: v["alloc"]["max_ops"].as_u64()? as u8,
            alloc_phases: v["alloc"]["phases"].as_u64()? as u8,
            alloc_size_mode: v["alloc"]["size_mode"].as_u64()? as u8,
            clock: ClockCfg {
                frequency: clock["frequency"].as_u64()?,
                step: clock["step"].as_u64()?,
                start: clock["start"].as_u64()?,
                read_cost: clock["read_cost"].as_u64()?,
                skew: clock["skew"]
                    .as_array()?
                    .iter()
                    .map(|x| x.as_i64())
                    .collect::<Option<Vec<_>>>()?,
            },
            clock_faults: v["clock_faults"]
                .as_array()?
                .iter()
                .map(|f| {
                    let at_read = f["at_read"].as_u64()? as u32;
                    let kind = if let Some(r) = f.get("stall") {
                        ClockFaultKind::Stall { reads: r.as_u64()? as u32 }
                    } else if let Some(t) = f.get("jump_fwd") {
                        ClockFaultKind::JumpFwd { ticks: t.as_u64()? }
                    } else {
                        ClockFaultKind::JumpBack { ticks: f.get("jump_back")?.as_u64()? }
                    };
                    Some(ClockFault { at_read, kind })
                })
                .collect::<Option<Vec<_>>>()?,
            precision_override: match &v["precision_override"] {
                Value::Null => None,
                x => Some(parse128(x)?),
            },
            overheads,
            panic: parse_panic(&v["panic"])?,
            panic2: parse_panic(v.get("panic2").unwrap_or(&Value::Null))?,
            spurious_parks: v["spurious_parks"]
                .as_array()?
                .iter()
                .map(|p| Some((p[0].as_u64()? as usize, p[1].as_u64()? as u32)))
                .collect::<Option<Vec<_>>>()?,
            prelude_threads: v["prelude_threads"].as_u64().unwrap_or(0) as usize,
            os_timer: v["os_timer"].as_bool().unwrap_or(false),
            overhead_measure_ticks: v.get("overhead_measure_ticks").and_then(|x| x.as_u64()).unwrap_or(0),
        })
    }

    /// Hash of the discrete shape (not of seeds and costs).
    pub fn shape(&self) -> u64 {
        let mut h = dsim::event::Fnv::default();
        h.u64(self.entry as u64);
        h.u64(self.ishape as u64);
        h.u64(self.oshape as u64);
        h.u64(self.sample_size.map_or(u64::MAX, |x| x as u64));
        h.u64(self.sample_count.map_or(u64::MAX, |x| x as u64));
        h.u64(self.threads as u64);
        h.u64(self.test_mode as u64);
        h.u64(self.min_time.is_some() as u64 | (self.max_time.is_some() as u64) << 1);
        h.u64(self.skip_ext.map_or(2, |b| b as u64));
        for i in 0..4 {
            h.u64(self.input_counters[i] as u64
                | (self.const_counters[i].is_some() as u64) << 1
                | (self.bencher_counters[i].is_some() as u64) << 2);
        }
        h.u64(self.alloc_phases as u64 | (self.alloc_max_ops as u64) << 8);
        h.u64(self.clock.frequency);
        h.u64(self.clock.step);
        h.u64(self.clock_faults.len() as u64);
        if let Some(p) = &self.panic2 {
            h.u64(p.phase as u64 + 11);
            h.u64(p.index as u64);
        }
        if let Some(p) = &self.panic {
            h.u64(p.phase as u64 + 1);
            h.u64(p.index as u64);
            for t in &p.tids {
                h.u64(*t as u64);
            }
        }
        h.u64(self.spurious_parks.len() as u64);
        h.u64(self.prelude_threads as u64 | (self.os_timer as u64) << 8 | ((self.overhead_measure_ticks > 0) as u64) << 9);
        h.finish()
    }

    pub fn run_config(&self, seed: u64, strategy: StrategySpec, ctx: Arc<LoopCtx>) -> RunConfig {
        // Scenarios with explicitly large counts need a larger step budget
        // (about two steps per call and eight per sample).
        let calls = self.sample_count.unwrap_or(100) as u64 * self.sample_size.unwrap_or(1) as u64;
        let samples = self.sample_count.unwrap_or(100) as u64 + self.threads as u64;
        let need = (calls.saturating_mul(2)).saturating_add(samples.saturating_mul(12));
        RunConfig {
            seed,
            strategy,
            max_steps: if need > 150_000 && self.sample_size.is_some() && self.min_time.is_none() {
                (need as usize).saturating_mul(3)
            } else {
                400_000
            },
            clock: self.clock.clone(),
            faults: FaultPlan {
                spurious_parks: self.spurious_parks.clone(),
                cas_weak_fail: Vec::new(),
                clock: self.clock_faults.clone(),
            },
            precision_override: self.precision_override,
            overheads: self.overheads,
            overhead_measure_ticks: self.overhead_measure_ticks,
            name: "loop",
            user: Some(ctx),
            ..RunConfig::default()
        }
    }

    pub fn loop_cfg(&self) -> LoopCfg {
        LoopCfg {
            sample_count: self.sample_count,
            sample_size: self.sample_size,
            threads: self.threads.max(1),
            test_mode: self.test_mode,
            min_time: self.min_time.map(to_duration),
            max_time: self.max_time.map(to_duration),
            skip_ext_time: self.skip_ext,
            const_counters: self.const_counters,
            tsc_frequency: if self.os_timer { None } else { Some(self.clock.frequency) },
        }
    }

    /// Counter value the input counter of `kind` reports for input `id`.
    pub fn counter_value(&self, kind: usize, id: u64) -> u64 {
        let h = rng::mix(&[self.counter_seed, kind as u64, id]);
        match self.counter_mode {
            0 => h % 1000,
            1 => h,
            _ => u64::MAX - (h % 3),
        }
    }
}

// ---------------------------------------------------------------------------
// Scripted allocator
// ---------------------------------------------------------------------------

/// Inner allocator of the scripted `AllocProfiler`: fabricates pointers that
/// are never dereferenced, so sizes up to 2^40 and zero are fine.
pub struct MockAlloc;

unsafe impl GlobalAlloc for MockAlloc {
    unsafe fn alloc(&self, layout: Layout) -> *mut u8 {
        layout.align().max(64) as *mut u8
    }
    unsafe fn alloc_zeroed(&self, layout: Layout) -> *mut u8 {
        layout.align().max(64) as *mut u8
    }
    unsafe fn dealloc(&self, _ptr: *mut u8, _layout: Layout) {}
    unsafe fn realloc(&self, ptr: *mut u8, _layout: Layout, _new_size: usize) -> *mut u8 {
        ptr
    }
}

pub static PROFILER: divan::AllocProfiler<MockAlloc> = divan::AllocProfiler::new(MockAlloc);

/// One scripted allocator operation.
#[derive(Clone, Copy, Debug, PartialEq, Eq)]
pub struct ScriptOp {
    pub kind: AllocKind,
    pub size: u64,
    pub new_size: u64,
}

pub fn script_size(mode: u8, h: u64) -> u64 {
    match mode {
        0 => 1 + h % 4096,
        1 => match h % 8 {
            0 => 1 << (20 + (h >> 8) % 21),
            1 => (1 << 31) + (h >> 8) % 1000,
            _ => 1 + (h >> 8) % 65536,
        },
        _ => match h % 6 {
            0 => 0,
            _ => 1 + (h >> 8) % 512,
        },
    }
}

pub fn script_op(seed: u64, mode: u8, tid: usize, k: u64) -> ScriptOp {
    let h = rng::mix(&[seed, tid as u64, k]);
    let size = script_size(mode, h >> 3);
    match h % 6 {
        0 | 1 => ScriptOp { kind: AllocKind::Alloc, size, new_size: 0 },
        2 => ScriptOp { kind: AllocKind::AllocZeroed, size, new_size: 0 },
        3 => ScriptOp { kind: AllocKind::Dealloc, size, new_size: 0 },
        _ => {
            let h2 = rng::mix(&[seed ^ 0xA110C, tid as u64, k]);
            let new_size = if mode == 2 && h2 % 4 == 0 { size } else { script_size(mode, h2 >> 3) };
            ScriptOp { kind: AllocKind::Realloc, size, new_size }
        }
    }
}

/// Performs one scripted op through the real `AllocProfiler` and logs it.
pub fn perform_op(op: ScriptOp, yielding: bool) {
    let lay = |size: u64| Layout::from_size_align(size as usize, 8).expect("layout");
    // SAFETY: the mock never dereferences anything.
    unsafe {
        match op.kind {
            AllocKind::Alloc => {
                let _ = PROFILER.alloc(lay(op.size));
            }
            AllocKind::AllocZeroed => {
                let _ = PROFILER.alloc_zeroed(lay(op.size));
            }
            AllocKind::Dealloc => PROFILER.dealloc(64 as *mut u8, lay(op.size)),
            AllocKind::Realloc => {
                let _ = PROFILER.realloc(64 as *mut u8, lay(op.size), op.new_size as usize);
            }
        }
    }
    let ev = UserEv::AllocOp { op: op.kind, size: op.size, new_size: op.new_size };
    if yielding {
        probe::event(ev);
    } else {
        probe::event_noyield(ev);
    }
}

// ---------------------------------------------------------------------------
// Per-run context, reachable from closures and from Drop impls
// ---------------------------------------------------------------------------

pub struct LoopCtx {
    pub scn: LoopScn,
    next_id: AtomicU64,
    next_out: AtomicU64,
    gen_count: [AtomicU32; dsim::MAX_THREADS],
    call_count: [AtomicU32; dsim::MAX_THREADS],
    drop_count: [AtomicU32; dsim::MAX_THREADS],
    counter_count: [AtomicU32; dsim::MAX_THREADS],
    alloc_count: [AtomicU64; dsim::MAX_THREADS],
}

impl LoopCtx {
    pub fn new(scn: LoopScn) -> Self {
        const Z32: AtomicU32 = AtomicU32::new(0);
        const Z64: AtomicU64 = AtomicU64::new(0);
        Self {
            scn,
            next_id: AtomicU64::new(1),
            next_out: AtomicU64::new(1),
            gen_count: [Z32; dsim::MAX_THREADS],
            call_count: [Z32; dsim::MAX_THREADS],
            drop_count: [Z32; dsim::MAX_THREADS],
            counter_count: [Z32; dsim::MAX_THREADS],
            alloc_count: [Z64; dsim::MAX_THREADS],
        }
    }

    fn alloc_script(&self, tid: usize, ph: u8) {
        let s = &self.scn;
        if s.alloc_phases & ph == 0 || s.alloc_max_ops == 0 {
            return;
        }
        let k0 = self.alloc_count[tid].load(Relaxed);
        let m = rng::mix(&[s.alloc_seed ^ 0x5C21, tid as u64, k0, ph as u64]) % (s.alloc_max_ops as u64 + 1);
        for j in 0..m {
            perform_op(script_op(s.alloc_seed, s.alloc_size_mode, tid, k0 + j), false);
        }
        self.alloc_count[tid].store(k0 + m.max(1), Relaxed);
    }
}

fn with_ctx<R>(f: impl FnOnce(&LoopCtx, usize) -> R) -> Option<R> {
    let user = dsim::sim::user()?;
    let ctx = user.downcast_ref::<LoopCtx>()?;
    let tid = probe::tid()?;
    Some(f(ctx, tid))
}

fn inject_panic(phase: PanicPhase) -> ! {
    probe::fault_fired(match phase {
        PanicPhase::Gen => "panic_in_gen",
        PanicPhase::Counter => "panic_in_input_counter",
        PanicPhase::DropOutput | PanicPhase::DropInput => "panic_in_destructor",
        _ => "panic_in_benched",
    });
    probe::event(UserEv::PanicInjected { phase });
    // The sample is abandoned: what the unwinding machinery allocates is not
    // work inside a timed section.
    dsim::window::close();
    std::panic::resume_unwind(Box::new(InjectedPanic))
}

// ---------------------------------------------------------------------------
// Value types
// ---------------------------------------------------------------------------

pub trait Val: Sized + Send + 'static {
    fn make(id: u64) -> Self;
    fn id(&self) -> u64;
    const SIZED: bool;
}

/// A destructor that panics (never while its thread is already unwinding).
fn maybe_panic_in_drop(c: &LoopCtx, tid: usize, k: u32, phase: PanicPhase) {
    if std::thread::panicking() {
        return;
    }
    for p in c.scn.panic.iter().chain(c.scn.panic2.iter()) {
        if p.phase == phase && p.index == k && p.tids.contains(&tid) {
            inject_panic(phase);
        }
    }
}

fn on_drop_input(id: u64) {
    with_ctx(|c, tid| {
        probe::event(UserEv::DropInput { id });
        c.alloc_script(tid, phase::DROP_IN);
        let k = c.drop_count[tid].fetch_add(1, Relaxed);
        clock::spend(c.scn.cost_drop.eval(tid, k as u64));
        maybe_panic_in_drop(c, tid, k, PanicPhase::DropInput);
    });
}

fn on_drop_output(out: u64) {
    with_ctx(|c, tid| {
        probe::event(UserEv::DropOutput { out });
        c.alloc_script(tid, phase::DROP_OUT);
        let k = c.drop_count[tid].fetch_add(1, Relaxed);
        clock::spend(c.scn.cost_drop.eval(tid, k as u64));
        maybe_panic_in_drop(c, tid, k, PanicPhase::DropOutput);
    });
}

pub struct ZIn;
pub struct ZdIn;
pub struct SIn(u64);
pub struct SdIn(u64);
pub struct ZOut;
pub struct ZdOut;
pub struct SOut(u64);
pub struct SdOut(u64);

impl Val for ZIn {
    fn make(_: u64) -> Self {
        ZIn
    }
    fn id(&self) -> u64 {
        0
    }
    const SIZED: bool = false;
}
impl Val for ZdIn {
    fn make(_: u64) -> Self {
        ZdIn
    }
    fn id(&self) -> u64 {
        0
    }
    const SIZED: bool = false;
}
impl Val for SIn {
    fn make(id: u64) -> Self {
        SIn(id)
    }
    fn id(&self) -> u64 {
        self.0
    }
    const SIZED: bool = true;
}
impl Val for SdIn {
    fn make(id: u64) -> Self {
        SdIn(id)
    }
    fn id(&self) -> u64 {
        self.0
    }
    const SIZED: bool = true;
}
impl Val for ZOut {
    fn make(_: u64) -> Self {
        ZOut
    }
    fn id(&self) -> u64 {
        0
    }
    const SIZED: bool = false;
}
impl Val for ZdOut {
    fn make(_: u64) -> Self {
        ZdOut
    }
    fn id(&self) -> u64 {
        0
    }
    const SIZED: bool = false;
}
impl Val for SOut {
    fn make(id: u64) -> Self {
        SOut(id)
    }
    fn id(&self) -> u64 {
        self.0
    }
    const SIZED: bool = true;
}
impl Val for SdOut {
    fn make(id: u64) -> Self {
        SdOut(id)
    }
    fn id(&self) -> u64 {
        self.0
    }
    const SIZED: bool = true;
}

impl Drop for ZdIn {
    fn drop(&mut self) {
        on_drop_input(0)
    }
}
impl Drop for SdIn {
    fn drop(&mut self) {
        on_drop_input(self.0)
    }
}
impl Drop for ZdOut {
    fn drop(&mut self) {
        on_drop_output(0)
    }
}
impl Drop for SdOut {
    fn drop(&mut self) {
        on_drop_output(self.0)
    }
}

// ---------------------------------------------------------------------------
// Instrumented closures
// ---------------------------------------------------------------------------

fn gen_input<I: Val>(c: &LoopCtx) -> I {
    let tid = probe::tid().unwrap_or(0);
    let k = c.gen_count[tid].fetch_add(1, Relaxed);
    for p in c.scn.panic.iter().chain(c.scn.panic2.iter()) {
        if p.phase == PanicPhase::Gen && p.index == k && p.tids.contains(&tid) {
            inject_panic(PanicPhase::Gen);
        }
    }
    let id = if I::SIZED { c.next_id.fetch_add(1, Relaxed) } else { 0 };
    probe::event(UserEv::Gen { id });
    c.alloc_script(tid, phase::GEN);
    clock::spend(c.scn.cost_gen.eval(tid, k as u64));
    I::make(id)
}

fn count_input(c: &LoopCtx, kind: usize, id: u64) -> u64 {
    let tid = probe::tid().unwrap_or(0);
    let k = c.counter_count[tid].fetch_add(1, Relaxed);
    for p in c.scn.panic.iter().chain(c.scn.panic2.iter()) {
        if p.phase == PanicPhase::Counter && p.index == k && p.tids.contains(&tid) {
            inject_panic(PanicPhase::Counter);
        }
    }
    let value = c.scn.counter_value(kind, id);
    probe::event(UserEv::Count { id, kind: kind as u8, value });
    c.alloc_script(tid, phase::COUNTER);
    value
}

/// The body shared by all benchmarked closures. `consume` tells whether the
/// input was passed by value (and is therefore consumed by the call).
fn call_body<O: Val>(c: &LoopCtx, id: u64, consume: bool) -> O {
    // The benchmarked call is the only code that may do as it pleases between
    // the two timestamps.
    let _benchmarked_call = dsim::window::Scope::enter();
    let tid = probe::tid().unwrap_or(0);
    let k = c.call_count[tid].fetch_add(1, Relaxed);
    probe::event(UserEv::CallBegin { id });
    for p in c.scn.panic.iter().chain(c.scn.panic2.iter()) {
        if p.phase == PanicPhase::Benched && p.index == k && p.tids.contains(&tid) {
            inject_panic(PanicPhase::Benched);
        }
    }
    c.alloc_script(tid, phase::CALL);
    clock::spend(c.scn.cost_call.eval(tid, k as u64));
    if consume {
        probe::event_noyield(UserEv::Consume { id });
    }
    let out = if O::SIZED {
        if id != 0 {
            id
        } else {
            (1 << 48) + c.next_out.fetch_add(1, Relaxed)
        }
    } else {
        0
    };
    probe::event(UserEv::CallEnd { id, out });
    O::make(out)
}

/// Applies the scenario's `counter` / `input_counter` calls. A macro because
/// the `Bencher<.., BencherConfig<G>>` type cannot be named outside divan.
macro_rules! add_counters {
    ($b:expr, $ctx:expr, $I:ty) => {{
        let mut b = $b;
        let ctx: &Arc<LoopCtx> = $ctx;
        let scn = &ctx.scn;
        if let Some(n) = scn.bencher_counters[0] {
            b = b.counter(BytesCount::new(n));
        }
        if let Some(n) = scn.bencher_counters[1] {
            b = b.counter(CharsCount::new(n));
        }
        if let Some(n) = scn.bencher_counters[2] {
            b = b.counter(CyclesCount::new(n));
        }
        if let Some(n) = scn.bencher_counters[3] {
            b = b.counter(ItemsCount::new(n));
        }
        if scn.input_counters[0] {
            let c = ctx.clone();
            b = b.input_counter(move |i: &$I| BytesCount::new(count_input(&c, 0, i.id())));
        }
        if scn.input_counters[1] {
            let c = ctx.clone();
            b = b.input_counter(move |i: &$I| CharsCount::new(count_input(&c, 1, i.id())));
        }
        if scn.input_counters[2] {
            let c = ctx.clone();
            b = b.input_counter(move |i: &$I| CyclesCount::new(count_input(&c, 2, i.id())));
        }
        if scn.input_counters[3] {
            let c = ctx.clone();
            b = b.input_counter(move |i: &$I| ItemsCount::new(count_input(&c, 3, i.id())));
        }
        b
    }};
}

fn drive<I: Val, O: Val>(bencher: Bencher, ctx: &Arc<LoopCtx>) {
    let c = ctx.clone();
    match ctx.scn.entry {
        Entry::Bench => {
            let mut b = bencher;
            // `counter` is available without inputs too.
            if let Some(n) = ctx.scn.bencher_counters[0] {
                b = b.counter(BytesCount::new(n));
            }
            if let Some(n) = ctx.scn.bencher_counters[3] {
                b = b.counter(ItemsCount::new(n));
            }
            b.bench(|| call_body::<O>(&c, 0, false))
        }
        Entry::BenchLocal => {
            let mut b = bencher;
            if let Some(n) = ctx.scn.bencher_counters[1] {
                b = b.counter(CharsCount::new(n));
            }
            b.bench_local(|| call_body::<O>(&c, 0, false))
        }
        Entry::BenchValues => {
            let g = ctx.clone();
            let b = bencher.with_inputs(move || gen_input::<I>(&g));
            add_counters!(b, ctx, I).bench_values(|i: I| {
                let id = i.id();
                std::mem::forget(i);
                call_body::<O>(&c, id, true)
            })
        }
        Entry::BenchLocalValues => {
            let g = ctx.clone();
            let b = bencher.with_inputs(move || gen_input::<I>(&g));
            add_counters!(b, ctx, I).bench_local_values(|i: I| {
                let id = i.id();
                std::mem::forget(i);
                call_body::<O>(&c, id, true)
            })
        }
        Entry::BenchRefs => {
            let g = ctx.clone();
            let b = bencher.with_inputs(move || gen_input::<I>(&g));
            add_counters!(b, ctx, I).bench_refs(|i: &mut I| call_body::<O>(&c, i.id(), false))
        }
        Entry::BenchLocalRefs => {
            let g = ctx.clone();
            let b = bencher.with_inputs(move || gen_input::<I>(&g));
            add_counters!(b, ctx, I)
                .bench_local_refs(|i: &mut I| call_body::<O>(&c, i.id(), false))
        }
    }
}

fn dispatch(bencher: Bencher, ctx: &Arc<LoopCtx>) {
    macro_rules! with_o {
        ($i:ty) => {
            match ctx.scn.oshape {
                Shape::Z => drive::<$i, ZOut>(bencher, ctx),
                Shape::Zd => drive::<$i, ZdOut>(bencher, ctx),
                Shape::S => drive::<$i, SOut>(bencher, ctx),
                Shape::Sd => drive::<$i, SdOut>(bencher, ctx),
            }
        };
    }
    match ctx.scn.eff_ishape() {
        Shape::Z => with_o!(ZIn),
        Shape::Zd => with_o!(ZdIn),
        Shape::S => with_o!(SIn),
        Shape::Sd => with_o!(SdIn),
    }
}

// ---------------------------------------------------------------------------
// Execution
// ---------------------------------------------------------------------------

/// Marker event after the prelude benchmark; oracles look at what follows.
pub const PRELUDE_END: u32 = 77;

#[derive(Default)]
pub struct LoopOut {
    pub returned: bool,
    pub did_run: bool,
    pub sample_size: u32,
    pub durations: Vec<u128>,
    pub allocs: Vec<Option<AllocPlain>>,
    pub counts: [Vec<u64>; 4],
    pub uses_input_counts: [bool; 4],
    pub capacity: usize,
    pub stats: Option<Result<StatsPlain, String>>,
    pub stats_handle: Option<StatsHandle>,
    pub stats_panic_location: Option<String>,
    /// Captured stdout of painting the statistics row, or the panic message.
    pub painted: Option<Result<String, String>>,
    pub caller_panic: Option<String>,
}

impl LoopScn {
    pub fn execute(&self, seed: u64, strategy: StrategySpec) -> (RunResult, LoopOut) {
        let ctx = Arc::new(LoopCtx::new(self.clone()));
        let cfg = self.run_config(seed, strategy, ctx.clone());
        let out: Arc<Mutex<LoopOut>> = Arc::new(Mutex::new(LoopOut::default()));
        let out2 = out.clone();
        let loop_cfg = self.loop_cfg();
        let prelude_threads = self.prelude_threads;
        let result = dsim::run(
            cfg,
            Box::new(move || {
                let shared = divan::verif::Shared::new(loop_cfg.test_mode, loop_cfg.tsc_frequency);
                if prelude_threads > 0 {
                    // An earlier benchmark of the same run: leaves workers,
                    // possibly a stale wake-up token, behind.
                    let pcfg = LoopCfg {
                        sample_count: Some(prelude_threads as u32),
                        sample_size: Some(1),
                        threads: prelude_threads,
                        ..loop_cfg.clone()
                    };
                    let pcfg = LoopCfg { min_time: None, max_time: None, const_counters: [None; 4], ..pcfg };
                    let _ = divan::verif::with_bencher_on(&shared, &pcfg, &mut |b| b.bench(|| ()));
                    probe::event(UserEv::Mark { tag: PRELUDE_END, a: 0, b: 0 });
                }
                probe::event(UserEv::LoopBegin);
                let _ = crate::common::take_last_panic();
                let o = divan::verif::with_bencher_on(&shared, &loop_cfg, &mut |b| dispatch(b, &ctx));
                drop(shared);
                probe::event(UserEv::LoopReturn { caller_panicked: o.caller_panic.is_some() });
                let mut lo = out2.lock().unwrap();
                lo.returned = true;
                lo.did_run = o.did_run;
                lo.sample_size = o.sample_size;
                lo.durations = o.durations;
                lo.allocs = o.allocs;
                lo.counts = o.counts;
                lo.uses_input_counts = o.uses_input_counts;
                lo.capacity = o.time_samples_capacity;
                lo.caller_panic = o.caller_panic;
                match o.stats {
                    None => {}
                    Some(Ok(h)) => {
                        lo.stats = Some(Ok(h.plain()));
                        lo.stats_handle = Some(h);
                    }
                    Some(Err(m)) => {
                        lo.stats_panic_location = crate::common::take_last_panic();
                        lo.stats = Some(Err(m));
                    }
                }
            }),
        );
        let mut o = std::mem::take(&mut *out.lock().unwrap());
        if let Some(h) = o.stats_handle.take() {
            o.painted = Some(crate::paint::paint_captured(&h, seed & 1 == 1));
        }
        (result, o)
    }
}

// ---------------------------------------------------------------------------
// Generation helpers shared by the per-property distributions
// ---------------------------------------------------------------------------

/// On a quantised clock that only advances when it is read, pairs of
/// back-to-back reads stay phase-locked to the quantum when `step` is a
/// multiple of `2 * read_cost`: every pair then reads the same value and
/// `Timer::measure_precision` (whose delay loop spends no virtual time) would
/// never see a non-zero sample. Real clocks advance during the delay loop, so
/// such configurations are an artefact and are not generated.
pub fn unaliased_read_cost(step: u64, mut read_cost: u64) -> u64 {
    read_cost = read_cost.clamp(1, step.max(1));
    while read_cost < step && step % (2 * read_cost) == 0 {
        read_cost += 1;
    }
    read_cost
}

pub fn pick_clock(rng: &mut Rng, with_quantum: bool) -> ClockCfg {
    let frequency = *rng.pick(&[
        1_000_000u64,
        24_000_000,
        1_000_000_000,
        2_500_000_000,
        3_000_000_000,
        10_000_000_000,
        999_983,
        2_147_483_647,
        3_000_000_019,
    ]);
    let step = if with_quantum { *rng.pick(&[1u64, 1, 1, 41, 100, 1000]) } else { 1 };
    let start = *rng.pick(&[0u64, 0, 1, 1 << 32, 1 << 63, 123_456_789_012]);
    let read_cost = if step > 1 { unaliased_read_cost(step, rng.range((step / 4).max(1), step)) } else { rng.range(1, 30) };
    ClockCfg { frequency, step, start, read_cost, skew: Vec::new() }
}

/// Decides (1 run in 5) that the loop uses `Timer::Os` and fixes the clock
/// to nanosecond ticks. Call right after the clock was chosen and before
/// costs and time limits are derived from its frequency.
pub fn maybe_os_timer(rng: &mut Rng, scn: &mut LoopScn) {
    if rng.chance(1, 5) {
        scn.os_timer = true;
        scn.clock.frequency = 1_000_000_000;
        scn.clock.start = scn.clock.start.min(1 << 62);
    }
}

pub fn pick_cost(rng: &mut Rng, lo: u64, hi: u64) -> Cost {
    match rng.below(10) {
        0 => Cost::Zero,
        1..=4 => Cost::Const(rng.range(lo, hi)),
        5..=6 => Cost::Grow { base: rng.range(lo, hi), inc: rng.range(0, (hi / 4).max(1)) },
        _ => Cost::Noisy { base: rng.range(lo, hi), spread: rng.range(1, hi.max(2)), seed: rng.next_u64() },
    }
}

pub fn pick_shapes(rng: &mut Rng, scn: &mut LoopScn) {
    // Two thirds of the runs use the entry points that can run in parallel.
    scn.entry = if rng.chance(2, 3) {
        *rng.pick(&[Entry::Bench, Entry::BenchValues, Entry::BenchRefs])
    } else {
        *rng.pick(&[Entry::BenchLocal, Entry::BenchLocalValues, Entry::BenchLocalRefs])
    };
    scn.ishape = *rng.pick(&Shape::ALL);
    scn.oshape = *rng.pick(&Shape::ALL);
}

pub fn pick_input_counters(rng: &mut Rng, scn: &mut LoopScn) {
    if !scn.entry.has_inputs() {
        return;
    }
    if rng.chance(1, 2) {
        for k in 0..4 {
            scn.input_counters[k] = rng.chance(1, 3);
        }
    }
    scn.counter_seed = rng.next_u64();
    scn.counter_mode = *rng.pick(&[0u8, 0, 1, 2]);
}
