//! Captures what divan prints for a statistics row. divan prints with
//! `println!`, so the capture is at the file-descriptor level; painting is
//! serialised across workers by a process-wide lock.

use std::{
    io::{Read, Seek, SeekFrom, Write},
    os::fd::{AsRawFd, FromRawFd},
    sync::Mutex,
};

use divan::verif::StatsHandle;

static PAINT_LOCK: Mutex<()> = Mutex::new(());

/// Paints `stats` exactly as a benchmark run would and returns the text, or
/// the message of the panic painting raised.
pub fn paint_captured(stats: &StatsHandle, binary: bool) -> Result<String, String> {
    let _g = PAINT_LOCK.lock().unwrap_or_else(|e| e.into_inner());
    let _ = std::io::stdout().flush();
    // SAFETY: plain fd juggling; every call's result is checked.
    unsafe {
        let memfd = libc::memfd_create(c"dv-paint".as_ptr(), 0);
        if memfd < 0 {
            return Err("harness: memfd_create failed".into());
        }
        let saved = libc::dup(1);
        if saved < 0 {
            libc::close(memfd);
            return Err("harness: dup failed".into());
        }
        libc::dup2(memfd, 1);
        let r = std::panic::catch_unwind(std::panic::AssertUnwindSafe(|| stats.paint(binary)));
        let _ = std::io::stdout().flush();
        libc::dup2(saved, 1);
        libc::close(saved);
        let mut f = std::fs::File::from_raw_fd(memfd);
        let mut text = String::new();
        let _ = f.seek(SeekFrom::Start(0));
        let _ = f.read_to_string(&mut text);
        let _ = f.as_raw_fd();
        match r {
            Ok(()) => Ok(text),
            Err(p) => Err(crate::common::take_last_panic().unwrap_or_else(|| {
                if let Some(s) = p.downcast_ref::<&'static str>() {
                    (*s).to_string()
                } else if let Some(s) = p.downcast_ref::<String>() {
                    s.clone()
                } else {
                    "<panic>".into()
                }
            })),
        }
    }
}
