//! `dv` — the check driver.
//!
//! ```text
//! dv check <ID> [quick|thorough]     exit 0 held / 1 violation / 2 harness error
//! dv replay <file>                   exit 1 if the violation reproduces, 0 if not, 2 on divergence
//! dv selfcheck                       determinism of the simulator itself
//! ```

mod allocrun;
mod batch;
mod common;
mod loopcheck;
mod loopgen;
mod loopparse;
mod looprun;
mod paint;
mod pool;
mod selftest;

use std::{path::Path, time::Duration};

/// Counting allocator of the check driver: forwards everything to the system
/// allocator and tells `dsim::window` about every request, so that allocator
/// operations the code under test performs *between a sample's two
/// timestamps* (outside the benchmarked calls) become visible to C02's
/// oracle. It keeps no state of its own.
struct WindowAlloc;

unsafe impl std::alloc::GlobalAlloc for WindowAlloc {
    #[inline]
    unsafe fn alloc(&self, l: std::alloc::Layout) -> *mut u8 {
        dsim::window::note(l.size());
        std::alloc::System.alloc(l)
    }
    #[inline]
    unsafe fn alloc_zeroed(&self, l: std::alloc::Layout) -> *mut u8 {
        dsim::window::note(l.size());
        std::alloc::System.alloc_zeroed(l)
    }
    #[inline]
    unsafe fn realloc(&self, p: *mut u8, l: std::alloc::Layout, n: usize) -> *mut u8 {
        dsim::window::note(n);
        std::alloc::System.realloc(p, l, n)
    }
    #[inline]
    unsafe fn dealloc(&self, p: *mut u8, l: std::alloc::Layout) {
        dsim::window::note(l.size());
        std::alloc::System.dealloc(p, l)
    }
}

#[global_allocator]
static WINDOW_ALLOC: WindowAlloc = WindowAlloc;

use batch::{BatchCfg, BatchEnd, Case, EvidenceMeta, Known};
use common::{Prop, Tier};
use serde_json::json;

const REAL_POOL: &[&str] = &[
    "divan::util::thread::pool::ThreadPool (broadcast, par_extend, broadcast_task, spawn, worker loop)",
    "divan::util::defer (abort guard)",
    "std unwinding / catch_unwind",
    "std thread_local!, thread::panicking",
];
const STUB_POOL: &[&str] = &[
    "std::sync::Mutex, mpsc::sync_channel(0), AtomicUsize, thread::park/unpark, thread::Builder::spawn, process::abort — dsim models (validated by dsim's own tests against documented std semantics)",
];

/// Open known findings of this property, as listed in the committed
/// `known_findings.json` (never written at run time). Each open entry names a
/// `key`; the predicate that recognises it lives here in code, so that any
/// *other* violation of the same property is still reported. There is no
/// open finding at present: the three defects found were repaired (`fixed:`
/// entries suppress nothing).
fn known_for<C: Case>(prop: Prop) -> Vec<Known<C>> {
    let path = batch::verif_root().join("known_findings.json");
    let Ok(v) = batch::read_json(&path) else { return Vec::new() };
    let mut out = Vec::new();
    for e in v["open"].as_array().cloned().unwrap_or_default() {
        if e["property"].as_str() != Some(prop.id()) {
            continue;
        }
        let key = e["key"].as_str().unwrap_or("").to_string();
        let what = e["what"].as_str().unwrap_or("").to_string();
        let class = e["class"].as_str().unwrap_or("").to_string();
        let needle = e["scenario_contains"].as_str().unwrap_or("").to_string();
        println!("KNOWN-FINDING: property={prop} {what}");
        out.push(Known {
            key,
            what,
            matches: Box::new(move |scn: &C, v: &common::Violation| {
                v.class == class && (needle.is_empty() || scn.to_json().to_string().contains(&needle))
            }),
        });
    }
    out
}

fn finish<C: Case>(
    prop: Prop,
    tier: Tier,
    seed: u64,
    res: batch::BatchResult<C>,
    meta: EvidenceMeta,
) -> i32 {
    match res.end {
        BatchEnd::HarnessError(e) => {
            eprintln!("HARNESS-ERROR property={prop} {e}");
            2
        }
        BatchEnd::Clean => {
            let p = batch::write_evidence(&meta, &res.agg, res.wall_s, 0);
            println!(
                "OK property={prop} tier={} seed={seed} runs={} distinct_nontrivial={} wall_s={:.1} evidence={}",
                tier.name(),
                res.agg.evaluations,
                res.agg.distinct.len(),
                res.wall_s,
                p.display()
            );
            0
        }
        BatchEnd::Violation(f) => {
            eprintln!(
                "violation found at run {} (seed {:#x}): {} — minimising…",
                f.run_index, f.run_seed, f.violations[0].message
            );
            let m = batch::minimise(prop, &f, Duration::from_secs(60));
            let seed_used = f.run_seed;
            let path = batch::write_replay(prop, seed, &f, &m, seed_used);
            // The minimised file must reproduce, identically, twice.
            let v = batch::read_json(&path).unwrap();
            let (a, b) = if m.violation.class == "non_termination" {
                (Err("skipped".to_string()), Err("skipped".to_string()))
            } else {
                (batch::replay_case::<C>(prop, &v), batch::replay_case::<C>(prop, &v))
            };
            let ok = m.violation.class == "non_termination"
                || matches!((&a, &b), (Ok(x), Ok(y)) if x.reproduced && y.reproduced && x.hash == y.hash);
            if !ok {
                eprintln!("note: minimised replay did not reproduce identically; reporting the un-minimised original");
                let m0 = batch::Minimised {
                    scn: f.scn.clone(),
                    strategy: dsim::StrategySpec::Recorded { choices: f.choices.clone() },
                    violation: f.violations[0].clone(),
                    from_decisions: f.choices.len(),
                    scenario_steps: 0,
                    replays: 0,
                };
                let _ = std::fs::remove_file(&path);
                let path = batch::write_replay(prop, seed, &f, &m0, seed_used);
                batch::write_evidence(&meta, &res.agg, res.wall_s, 1);
                println!("class={} message={}", m0.violation.class, m0.violation.message);
                println!("VIOLATION property={prop} replay={}", path.display());
                return 1;
            }
            batch::write_evidence(&meta, &res.agg, res.wall_s, 1);
            println!("class={} message={}", m.violation.class, m.violation.message);
            println!("scenario={}", m.scn.to_json());
            println!("VIOLATION property={prop} replay={}", path.display());
            1
        }
    }
}

fn check_pool(prop: Prop, tier: Tier, seed: u64) -> i32 {
    let (runs, wall) = match tier {
        Tier::Quick => (60_000, 120),
        Tier::Thorough => (1_500_000, 900),
    };
    let cfg = BatchCfg {
        prop,
        tier,
        seed,
        runs,
        wall: Duration::from_secs(wall),
        workers: common::workers(),
        salt: 0,
    };
    let known = known_for::<pool::PoolScn>(prop);
    let res = batch::run_batch::<pool::PoolScn>(&cfg, &known);
    // (Only on a clean batch: on a broken tree nearly every run fails, and
    // every failing run leaves its threads parked.)
    let saturation = if matches!(res.end, BatchEnd::Clean) {
        pool_saturation(seed, tier)
    } else {
        json!("skipped: the batch did not end clean")
    };
    let meta = EvidenceMeta {
        prop,
        tier,
        seed,
        level: "exploration",
        rule: "one run = (pool history of 1..k broadcasts with n_j aux threads, api, panicking index subset, who calls: the main thread, a helper thread per broadcast, or 2-3 caller threads at the same time; spurious-park plan) x one seeded schedule (random walk / PCT / starve / run-to-block); non-trivial = >= 2 simulated threads and >= 1 decision with >= 2 enabled threads, or >= 1 fired fault; distinct = unseen (scenario shape, fired fault kinds, per-object operation-order signature, outcome class)",
        assumptions: vec![
            "std sync primitives are modelled by dsim (documented semantics only); interleavings are sequentially consistent, ordering bugs are caught by the vector-clock happens-before audit, not by weak-memory execution".into(),
            "preemption only at shim operations and probes".into(),
            "sampling, not enumeration".into(),
        ],
        components_real: REAL_POOL.to_vec(),
        components_stub: STUB_POOL.to_vec(),
        extra: json!({ "saturation_of_smallest_cases": saturation }),
    };
    finish(prop, tier, seed, res, meta)
}

/// Coverage measure for the smallest cases (one broadcast, n = 1 and n = 2,
/// no faults): distinct interleavings (per-object operation-order
/// signatures) reached after 250, 500, … runs under seeded random / PCT /
/// starvation schedules. The count is expected to flatten out — evidence of
/// coverage of the small cases, not a claim of exhaustion.
fn pool_saturation(seed: u64, tier: Tier) -> serde_json::Value {
    let total: u64 = if tier == Tier::Thorough { 32_000 } else { 4_000 };
    let mut out = serde_json::Map::new();
    for n in [1usize, 2] {
        let scn = pool::PoolScn {
            broadcasts: vec![pool::Bcast { n, api: pool::Api::Broadcast, panics: Vec::new(), helper_caller: false, payload_bomb: false, lane: 0 }],
            lanes: 1,
            spurious_parks: Vec::new(),
            cas_weak_fail: Vec::new(),
        };
        let mut seen = std::collections::HashSet::new();
        let mut seen_orders = std::collections::HashSet::new();
        let mut curve = Vec::new();
        let mut next_mark = 250u64;
        for i in 0..total {
            let run_seed = dsim::rng::mix(&[seed, 0x5A7, n as u64, i]);
            let mut rng = dsim::rng::Rng::new(run_seed);
            let strategy = batch::strategy_for(&mut rng, &scn);
            if dsim::sim::leaked_threads() > 2_000 {
                break;
            }
            let (r, _) = batch::one_run(&scn, run_seed, strategy);
            if r.failure.is_none() {
                seen.insert(r.sync_sig);
                // The complete interleaving: which thread performed the
                // k-th recorded operation, for every k.
                let mut h = dsim::event::Fnv::default();
                for e in &r.events {
                    h.u64(e.tid as u64);
                }
                seen_orders.insert(h.finish());
            }
            if i + 1 == next_mark || i + 1 == total {
                curve.push(json!({"runs": i + 1, "distinct_sync_order_signatures": seen.len(), "distinct_total_orders": seen_orders.len()}));
                next_mark *= 2;
            }
        }
        out.insert(format!("one_broadcast_n={n}"), json!({ "runs_vs_distinct_interleavings": curve }));
    }
    serde_json::Value::Object(out)
}

const REAL_LOOP: &[&str] = &[
    "divan::benchmark::BenchContext::bench_loop_threaded / bench_loop_local / sample_recorder (all three loop paths)",
    "divan::benchmark::defer::DeferStore",
    "all six Bencher entry points, Bencher::counter / input_counter",
    "BenchContext::compute_stats, SampleCollection, CounterCollection",
    "TreePainter::finish_leaf (stdout captured at fd level)",
    "divan::util::thread::pool::ThreadPool",
    "AllocProfiler<MockAlloc> + ThreadAllocInfo (thread-local tallies, clear, snapshot)",
    "TscTimestamp::duration_since, FineDuration arithmetic, From<Duration>, Timer::measure_precision, TimedOverhead::total_overhead",
    "std unwinding, thread-locals, thread::panicking",
];
const STUB_LOOP: &[&str] = &[
    "std::sync::{Barrier, Mutex, mpsc, atomics}, thread park/unpark/spawn — dsim models",
    "the TSC instruction — dsim virtual counter (hook H5)",
    "the wrapped allocator — MockAlloc (fabricated pointers, never dereferenced)",
    "measurement of benchmarking overheads — simulator-provided constants (hook H6); in a quarter of the C04 and time-limited C19 runs the first request for them costs virtual time (fault kind slow_overhead_measurement), as the real one-off measurement does",
    "Instant::now — under simulation the OS timer reads the virtual clock (hook H9; 1 run in 5 uses Timer::Os)",
];

fn check_loop(prop: Prop, tier: Tier, seed: u64) -> i32 {
    let (runs, wall): (u64, u64) = match (prop, tier) {
        (Prop::C03, Tier::Quick) => (20_000, 120),
        (Prop::C19, Tier::Quick) => (12_000, 120),
        (_, Tier::Quick) => (30_000, 120),
        (_, Tier::Thorough) => (600_000, 900),
    };
    let runs = std::env::var("VERIF_RUNS").ok().and_then(|s| s.parse().ok()).unwrap_or(runs);
    let cfg = BatchCfg {
        prop,
        tier,
        seed,
        runs,
        wall: Duration::from_secs(wall),
        workers: common::workers(),
        salt: 0,
    };
    let known = known_for::<looprun::LoopScn>(prop);
    let res = batch::run_batch::<looprun::LoopScn>(&cfg, &known);
    // C04: failing allocations. A huge sample_count with a small max_time
    // must still just stop at max_time when memory is limited.
    let mut oom_extra = json!({});
    if prop == Prop::C04 && matches!(res.end, BatchEnd::Clean) {
        match oom_probes() {
            Ok(n) => {
                oom_extra = json!({ "allocation_failure_probes": { "scenarios": n, "address_space_limit_bytes": OOM_PROBE_LIMIT, "outcome": "all stopped at max_time" } });
            }
            Err((scn, msg)) => {
                let dir = batch::verif_root().join("replays");
                let _ = std::fs::create_dir_all(&dir);
                let path = dir.join(format!("C04-{seed}-oom.json"));
                let body = json!({
                    "format": 1, "property": "C04", "engine": "dsim-oom",
                    "violation": { "class": "abort_on_allocation_failure", "message": msg },
                    "scenario": scn.to_json(),
                    "faults": [{ "kind": "alloc_fail_large", "address_space_limit_bytes": OOM_PROBE_LIMIT }],
                    "repo": batch::repo_describe(),
                });
                std::fs::write(&path, serde_json::to_string_pretty(&body).unwrap()).unwrap();
                let mut agg = res.agg;
                *agg.faults_fired.entry("alloc_fail_large".into()).or_insert(0) += 1;
                batch::write_evidence(
                    &EvidenceMeta {
                        prop,
                        tier,
                        seed,
                        level: "exploration",
                        rule: "see the clean-run evidence; this run ended in the allocation-failure probe",
                        assumptions: vec![],
                        components_real: REAL_LOOP.to_vec(),
                        components_stub: STUB_LOOP.to_vec(),
                        extra: json!({}),
                    },
                    &agg,
                    res.wall_s,
                    1,
                );
                println!("class=abort_on_allocation_failure message={msg}");
                println!("scenario={}", scn.to_json());
                println!("VIOLATION property=C04 replay={}", path.display());
                return 1;
            }
        }
    }
    let meta = EvidenceMeta {
        prop,
        tier,
        seed,
        level: "exploration",
        rule: "one run = (Bencher entry point, input/output shape, sample size | tuned, sample count, threads, bench|test, time limits, counters, cost script, allocation script, virtual-clock configuration, fault plan) x one seeded schedule; non-trivial = >= 2 simulated threads and >= 1 decision with >= 2 enabled threads, or >= 1 fired fault, or >= 2 stored samples; distinct = unseen (scenario shape, fired fault kinds, per-object operation-order signature, multiset shape of the stored durations, outcome class)",
        assumptions: vec![
            "the loop is driven through BenchOptions directly (where attribute, group, builder, CLI and environment converge); option resolution itself is C15 (not applicable)".into(),
            "thread index i of a parallel benchmark runs on simulated thread i (fresh pool per run; C06 decides the pool)".into(),
            "interleavings are sequentially consistent; preemption only at shim operations, clock reads and workload events".into(),
            "instruction-level reordering around the timestamp reads is not modelled".into(),
            "sampling, not enumeration".into(),
        ],
        components_real: REAL_LOOP.to_vec(),
        components_stub: STUB_LOOP.to_vec(),
        extra: oom_extra,
    };
    finish(prop, tier, seed, res, meta)
}

fn check_alloc(prop: Prop, tier: Tier, seed: u64) -> i32 {
    let (runs, wall): (u64, u64) = match tier {
        Tier::Quick => (30_000, 120),
        Tier::Thorough => (400_000, 900),
    };
    let runs = std::env::var("VERIF_RUNS").ok().and_then(|s| s.parse().ok()).unwrap_or(runs);
    let cfg = BatchCfg {
        prop,
        tier,
        seed,
        runs,
        wall: Duration::from_secs(wall),
        workers: common::workers(),
        salt: 0,
    };
    let known = known_for::<allocrun::AllocScn>(prop);
    let res = batch::run_batch::<allocrun::AllocScn>(&cfg, &known);
    let meta = EvidenceMeta {
        prop,
        tier,
        seed,
        level: "exploration",
        rule: "one run = (1..8 simulated threads, each a seeded script of alloc / alloc_zeroed / dealloc / realloc operations with sizes 0..2^40 through the real AllocProfiler, with tally take and peek points) x one seeded schedule in which every operation is a scheduling point; non-trivial = >= 2 threads with >= 1 contested decision, or >= 2 operations; distinct = unseen (script shape, per-object operation-order signature, snapshot figures)",
        assumptions: vec![
            "the wrapped allocator is a mock that fabricates pointers (never dereferenced); transparency towards the wrapped allocator is C09's".into(),
            "simulated threads are real OS threads, so the per-thread tally is divan's real thread-local".into(),
            "sampling, not enumeration".into(),
        ],
        components_real: vec![
            "divan::alloc::AllocProfiler (GlobalAlloc impl), ThreadAllocInfo (tally_alloc / tally_dealloc / tally_realloc / clear / try_current / current), thread_local CURRENT_THREAD_INFO",
        ],
        components_stub: vec!["the wrapped allocator (MockAlloc)", "thread spawn / join (dsim models)"],
        extra: json!({}),
    };
    finish(prop, tier, seed, res, meta)
}

fn cmd_check(prop: Prop, tier: Tier) -> i32 {
    let seed = common::verif_seed();
    println!("VERIF_SEED={seed} property={prop} tier={}", tier.name());
    match prop {
        Prop::C06 | Prop::C07 => check_pool(prop, tier, seed),
        Prop::C10 => check_alloc(prop, tier, seed),
        Prop::C01 | Prop::C02 | Prop::C03 | Prop::C04 | Prop::C05 | Prop::C08 | Prop::C11 | Prop::C19 => {
            check_loop(prop, tier, seed)
        }
        _ => {
            eprintln!("property {prop} has no check yet");
            2
        }
    }
}

/// Determinism of the simulator itself: every seed is run twice (on
/// different worker threads) and the hashes of the full event history and
/// decision list are compared; the combined digest is printed so that runs in
/// separate processes and at other worker counts can be compared too.
fn selfcheck_family<C: Case>(name: &str, prop: Prop, seeds: u64) -> Result<u64, String> {
    use std::sync::atomic::{AtomicU64, Ordering};
    let workers = common::workers();
    let next = AtomicU64::new(0);
    let hashes: Vec<AtomicU64> = (0..seeds).map(|_| AtomicU64::new(0)).collect();
    let bad = std::sync::Mutex::new(None::<String>);
    for pass in 0..2 {
        next.store(0, Ordering::Relaxed);
        std::thread::scope(|sc| {
            for w in 0..workers {
                let (next, hashes, bad) = (&next, &hashes, &bad);
                sc.spawn(move || loop {
                    // The second pass walks the seeds in another order so
                    // that a seed lands on another worker at another time.
                    let k = next.fetch_add(1, Ordering::Relaxed);
                    if k >= seeds {
                        break;
                    }
                    let i = if pass == 0 { k } else { seeds - 1 - k };
                    let run_seed = dsim::rng::mix(&[common::verif_seed(), prop.num(), 0, i]);
                    let mut rng = dsim::rng::Rng::new(run_seed);
                    let scn = C::generate(&mut rng, prop, Tier::Quick);
                    let strategy = batch::strategy_for(&mut rng, &scn);
                    let (r, _) = batch::one_run(&scn, run_seed, strategy);
                    let h = r.determinism_hash() | 1;
                    let prev = hashes[i as usize].swap(h, Ordering::Relaxed);
                    if pass == 1 && prev != h {
                        *bad.lock().unwrap() = Some(format!(
                            "{name}: seed index {i} (run seed {run_seed:#x}) produced two different histories ({prev:#x} vs {h:#x}) [worker {w}]; scenario {}",
                            scn.to_json()
                        ));
                    }
                });
            }
        });
    }
    if let Some(b) = bad.into_inner().unwrap() {
        return Err(b);
    }
    let mut d = dsim::event::Fnv::default();
    for h in &hashes {
        d.u64(h.load(Ordering::Relaxed));
    }
    Ok(d.finish())
}

fn cmd_selfcheck() -> i32 {
    let seeds: u64 = std::env::var("VERIF_SELFCHECK_SEEDS").ok().and_then(|s| s.parse().ok()).unwrap_or(2000);
    let mut digests = Vec::new();
    let fams: Vec<(&str, Prop, u8)> = vec![
        ("pool/C06", Prop::C06, 0),
        ("pool/C07", Prop::C07, 0),
        ("loop/C01", Prop::C01, 1),
        ("loop/C02", Prop::C02, 1),
        ("loop/C03", Prop::C03, 1),
        ("loop/C04", Prop::C04, 1),
        ("loop/C05", Prop::C05, 1),
        ("loop/C08", Prop::C08, 1),
        ("loop/C11", Prop::C11, 1),
        ("loop/C19", Prop::C19, 1),
        ("alloc/C10", Prop::C10, 2),
    ];
    for (name, prop, kind) in fams {
        let r = match kind {
            0 => selfcheck_family::<pool::PoolScn>(name, prop, seeds),
            1 => selfcheck_family::<looprun::LoopScn>(name, prop, seeds),
            _ => selfcheck_family::<allocrun::AllocScn>(name, prop, seeds),
        };
        match r {
            Ok(d) => {
                println!("selfcheck {name}: {seeds} seeds x 2 runs identical, digest={d:#018x}");
                digests.push(d);
            }
            Err(e) => {
                eprintln!("HARNESS-ERROR determinism: {e}");
                return 2;
            }
        }
    }
    let mut all = dsim::event::Fnv::default();
    for d in digests {
        all.u64(d);
    }
    println!("SELFCHECK-DIGEST workers={} seeds={seeds} {:#018x}", common::workers(), all.finish());
    0
}

/// Address-space limit under which the allocation-failure probes run.
const OOM_PROBE_LIMIT: u64 = 6 << 30;

/// Child side of the allocation-failure probe: runs one loop scenario under
/// an address-space limit (failing allocations are a fault real deployments
/// meet; an allocation failure aborts the process, so this runs in a child)
/// and checks the C04 stop rule on it. Exit 0 held, 3 violated; a death by
/// signal is judged by the parent.
fn cmd_oom_probe(path: &Path) -> i32 {
    let v = match batch::read_json(path) {
        Ok(v) => v,
        Err(e) => {
            eprintln!("{e}");
            return 2;
        }
    };
    let Some(scn) = <looprun::LoopScn as Case>::from_json(&v["scenario"]) else {
        eprintln!("cannot parse scenario");
        return 2;
    };
    let lim = libc::rlimit { rlim_cur: OOM_PROBE_LIMIT, rlim_max: OOM_PROBE_LIMIT };
    // SAFETY: plain syscall.
    if unsafe { libc::setrlimit(libc::RLIMIT_AS, &lim) } != 0 {
        eprintln!("setrlimit failed");
        return 2;
    }
    let (r, out) = batch::one_run(&scn, 1, dsim::StrategySpec::RunToBlock);
    let vs = scn.check(Prop::C04, &r, &out);
    if let Some(v) = vs.first() {
        println!("OOM-PROBE-VIOLATION class={} message={}", v.class, v.message);
        return 3;
    }
    println!("OOM-PROBE-OK samples_stored={}", out.durations.len());
    0
}

/// Parent side: a small fixed family of scenarios in which `sample_count` is
/// huge and `max_time` is what bounds sampling. Returns the first failing
/// scenario with what happened.
fn oom_probes() -> Result<u64, (looprun::LoopScn, String)> {
    use looprun::{Cost, Entry, LoopScn, Shape};
    let mut n = 0;
    for sample_count in [1_000_000_000u32, u32::MAX] {
        for threads in [1usize, 2] {
            for skip_ext in [None, Some(true)] {
                let scn = LoopScn {
                    entry: Entry::BenchValues,
                    ishape: Shape::S,
                    oshape: Shape::Z,
                    sample_size: Some(1),
                    sample_count: Some(sample_count),
                    threads,
                    skip_ext,
                    cost_call: Cost::Const(1_000),
                    cost_gen: Cost::Const(200),
                    // About five rounds at 1 GHz.
                    max_time: Some((0, 6_000)),
                    ..LoopScn::default()
                };
                n += 1;
                if let Err(msg) = run_oom_probe(&scn) {
                    return Err((scn, msg));
                }
            }
        }
    }
    Ok(n)
}

fn run_oom_probe(scn: &looprun::LoopScn) -> Result<(), String> {
    let dir = batch::verif_root().join("target");
    let _ = std::fs::create_dir_all(&dir);
    let file = dir.join(format!("oom-probe-{}.json", std::process::id()));
    std::fs::write(&file, json!({ "scenario": scn.to_json() }).to_string()).map_err(|e| e.to_string())?;
    let exe = std::env::current_exe().map_err(|e| e.to_string())?;
    let out = std::process::Command::new(exe)
        .arg("oom-probe")
        .arg(&file)
        .env("VERIF_QUIET_PANICS", "1")
        .output()
        .map_err(|e| e.to_string())?;
    let _ = std::fs::remove_file(&file);
    let stdout = String::from_utf8_lossy(&out.stdout);
    let stderr = String::from_utf8_lossy(&out.stderr);
    match out.status.code() {
        Some(0) => Ok(()),
        Some(3) => Err(stdout.lines().find(|l| l.starts_with("OOM-PROBE-VIOLATION")).unwrap_or("violation").to_string()),
        Some(c) => Err(format!("probe exited with status {c}: {}", stderr.lines().last().unwrap_or(""))),
        None => Err(format!(
            "under an address-space limit of {} GiB the run was killed by a signal instead of stopping at max_time: {}",
            OOM_PROBE_LIMIT >> 30,
            stderr.lines().rev().find(|l| l.contains("allocation")).or(stderr.lines().last()).unwrap_or("")
        )),
    }
}

fn cmd_replay(path: &Path) -> i32 {
    let v = match batch::read_json(path) {
        Ok(v) => v,
        Err(e) => {
            eprintln!("{e}");
            return 2;
        }
    };
    let Some(prop) = v["property"].as_str().and_then(Prop::parse) else {
        eprintln!("replay file has no property");
        return 2;
    };
    if v["engine"].as_str() == Some("dsim-oom") {
        let Some(scn) = <looprun::LoopScn as Case>::from_json(&v["scenario"]) else {
            eprintln!("cannot parse scenario");
            return 2;
        };
        return match run_oom_probe(&scn) {
            Ok(()) => {
                println!("not reproduced: the run stopped at max_time under the address-space limit");
                0
            }
            Err(msg) => {
                println!("class=abort_on_allocation_failure message={msg}");
                println!("VIOLATION property={prop} replay={}", path.display());
                1
            }
        };
    }
    let kind = v["scenario"]["kind"].as_str().unwrap_or("");
    let out = match kind {
        "pool" => batch::replay_case::<pool::PoolScn>(prop, &v),
        "loop" => batch::replay_case::<looprun::LoopScn>(prop, &v),
        "alloc" => batch::replay_case::<allocrun::AllocScn>(prop, &v),
        other => Err(format!("unknown scenario kind {other:?}")),
    };
    match out {
        Err(e) => {
            eprintln!("{e}");
            2
        }
        Ok(o) => {
            if let Some(h) = o.harness_error {
                eprintln!("replay does not apply to this tree: {h}");
                return 2;
            }
            println!("history_hash={:#018x}", o.hash);
            if o.reproduced {
                let g = o.got.iter().find(|g| g.class == o.expected.class).unwrap();
                println!("class={} message={}", g.class, g.message);
                println!("VIOLATION property={prop} replay={}", path.display());
                1
            } else {
                println!(
                    "not reproduced: expected class {}, got {:?}",
                    o.expected.class,
                    o.got.iter().map(|g| g.class.as_str()).collect::<Vec<_>>()
                );
                0
            }
        }
    }
}

fn main() {
    common::install_quiet_panic_hook();
    let args: Vec<String> = std::env::args().collect();
    let code = match args.get(1).map(|s| s.as_str()) {
        Some("check") => {
            let prop = args.get(2).and_then(|s| Prop::parse(s));
            let tier = args
                .get(3)
                .map(|s| s.to_string())
                .or_else(|| std::env::var("VERIF_TIER").ok())
                .and_then(|s| Tier::parse(&s))
                .unwrap_or(Tier::Quick);
            match prop {
                Some(p) => cmd_check(p, tier),
                None => {
                    eprintln!("usage: dv check <C01..C11|C19> [quick|thorough]");
                    2
                }
            }
        }
        Some("selfcheck") => cmd_selfcheck(),
        Some("oom-probe") => match args.get(2) {
            Some(p) => cmd_oom_probe(Path::new(p)),
            None => 2,
        },
        Some("selftest-oracles") => selftest::run(),
        Some("replay") => match args.get(2) {
            Some(p) => cmd_replay(Path::new(p)),
            None => {
                eprintln!("usage: dv replay <file>");
                2
            }
        },
        _ => {
            eprintln!("usage: dv check <ID> [quick|thorough] | dv replay <file> | dv selfcheck");
            2
        }
    };
    std::process::exit(code);
}
