//! Oracles over loop-run histories: C01, C02, C03, C04, C05, C08, C11, C19.
//! Every oracle is a pure function `scenario x history x outcome ->
//! violations` and asserts only what its property states.

use std::collections::HashMap;

use divan::verif::StatsPlain;
use dsim::{event::PanicPhase, Ev, Event, Failure, RunResult, UserEv};

use crate::{
    common::Violation,
    looprun::{LoopOut, LoopScn, Shape},
    loopparse::{conv, dur_picos, parse, raw_of, rounds_of, stored_index, Parsed, RefTally, Samp},
};

fn v(class: &str, msg: String) -> Violation {
    Violation::new(class, msg)
}

/// Violations common to every loop oracle: the run itself must be sane.
fn run_failures(scn: &LoopScn, r: &RunResult, out: &LoopOut, allow_panic: bool) -> Vec<Violation> {
    let mut vs = Vec::new();
    if let Some(f) = &r.failure {
        if let Some(fv) = crate::batch::failure_violation(f) {
            vs.push(fv);
        }
        return vs;
    }
    if !out.returned {
        vs.push(v("no_return", "the bencher call never returned".into()));
    }
    if let Some(m) = &r.main_panic {
        vs.push(v("harness_panic", format!("simulated main thread panicked: {m}")));
    }
    if !allow_panic || (scn.panic.is_none() && scn.panic2.is_none()) {
        if let Some(m) = &out.caller_panic {
            vs.push(v(
                "unexpected_panic",
                format!(
                    "the bencher call panicked without an injected fault: {m} ({})",
                    out.stats_panic_location.clone().unwrap_or_default()
                ),
            ));
        }
    }
    vs
}

fn is_workload(e: &Event) -> bool {
    matches!(
        e.kind,
        Ev::User(
            UserEv::Gen { .. }
                | UserEv::Count { .. }
                | UserEv::CallBegin { .. }
                | UserEv::CallEnd { .. }
                | UserEv::Consume { .. }
                | UserEv::DropOutput { .. }
                | UserEv::DropInput { .. }
        )
    )
}

// ---------------------------------------------------------------------------
// C01 — lifecycle of every value
// ---------------------------------------------------------------------------

#[derive(Default, Debug)]
struct Life {
    gen: Vec<(u32, u8)>,
    counts: Vec<(u32, u8, u8)>,
    begin: Vec<(u32, u8)>,
    end: Vec<(u32, u8, u64)>,
    consume: Vec<(u32, u8)>,
    drop_in: Vec<(u32, u8)>,
}

pub fn check_c01(scn: &LoopScn, r: &RunResult, out: &LoopOut) -> Vec<Violation> {
    let mut vs = run_failures(scn, r, out, true);
    if r.failure.is_some() {
        return vs;
    }
    let p = parse(r);
    for e in &p.errors {
        vs.push(v("history_shape", e.clone()));
    }
    let panicked = p.injected_panic;
    let t_eff = scn.eff_threads();
    let ish = scn.eff_ishape();
    let osh = scn.oshape;
    let n_counters = scn.input_counters.iter().filter(|&&b| b).count();
    let expect_drop_in = scn.entry.by_ref() && ish.has_drop();
    let expect_drop_out = osh.has_drop();

    // Thread affinity of the `_local` forms and of thread count.
    for e in r.events.iter().filter(|e| is_workload(e)) {
        if (e.tid as usize) >= t_eff {
            vs.push(v(
                "wrong_thread",
                format!(
                    "{:?} ran on sim thread {} although the loop uses {} thread(s){}",
                    e.kind,
                    e.tid,
                    t_eff,
                    if scn.entry.is_local() { " (_local form: calling thread only)" } else { "" }
                ),
            ));
            break;
        }
    }

    // Identity-carrying values.
    let mut lives: HashMap<u64, Life> = HashMap::new();
    let mut outs: HashMap<u64, (Vec<(u32, u8)>, Vec<(u32, u8)>)> = HashMap::new(); // out id -> (made, dropped)
    for e in &r.events {
        let (s, t) = (e.seq, e.tid);
        match e.kind {
            Ev::User(UserEv::Gen { id }) if id != 0 => lives.entry(id).or_default().gen.push((s, t)),
            Ev::User(UserEv::Count { id, kind, .. }) if id != 0 => {
                lives.entry(id).or_default().counts.push((s, t, kind))
            }
            Ev::User(UserEv::CallBegin { id }) if id != 0 => {
                lives.entry(id).or_default().begin.push((s, t))
            }
            Ev::User(UserEv::CallEnd { id, out }) => {
                if id != 0 {
                    lives.entry(id).or_default().end.push((s, t, out));
                }
                if out != 0 {
                    outs.entry(out).or_default().0.push((s, t));
                }
            }
            Ev::User(UserEv::Consume { id }) if id != 0 => {
                lives.entry(id).or_default().consume.push((s, t))
            }
            Ev::User(UserEv::DropInput { id }) if id != 0 => {
                lives.entry(id).or_default().drop_in.push((s, t))
            }
            Ev::User(UserEv::DropOutput { out }) if out != 0 => {
                outs.entry(out).or_default().1.push((s, t))
            }
            _ => {}
        }
    }
    let mut ids: Vec<&u64> = lives.keys().collect();
    ids.sort();
    for id in ids {
        let l = &lives[id];
        let ctx = |what: &str| format!("input {id}: {what} ({l:?})");
        if l.gen.len() != 1 {
            vs.push(v(
                if l.gen.is_empty() { "never_generated" } else { "generated_twice" },
                ctx(if l.gen.is_empty() {
                    "used but never produced by the generator (uninitialised or stale slot)"
                } else {
                    "generated more than once"
                }),
            ));
            continue;
        }
        let (gseq, gt) = l.gen[0];
        // One thread for the whole life.
        let tids = l
            .counts
            .iter()
            .map(|c| c.1)
            .chain(l.begin.iter().map(|c| c.1))
            .chain(l.end.iter().map(|c| c.1))
            .chain(l.drop_in.iter().map(|c| c.1));
        for t in tids {
            if t != gt {
                vs.push(v("wrong_thread", ctx("generated, counted, consumed and dropped on different threads")));
                break;
            }
        }
        // Shown once to every input counter.
        for k in 0..4u8 {
            let c = l.counts.iter().filter(|c| c.2 == k).count();
            let want = scn.input_counters[k as usize] as usize;
            if c > want || (c < want && !panicked) {
                vs.push(v("counter_calls", ctx(&format!("counter kind {k} saw it {c} times, expected {want}"))));
            }
        }
        if l.begin.len() > 1 {
            vs.push(v("called_twice", ctx("passed to more than one call of the benchmarked function")));
        }
        if l.begin.is_empty() && !panicked {
            vs.push(v("never_called", ctx("generated but never passed to the benchmarked function")));
        }
        if l.drop_in.len() > 1 {
            vs.push(v("double_drop", ctx("input dropped more than once")));
        }
        // A by-value input that a call took is the call's to drop (the
        // harness forgets it); one that no call ever took — a panic came
        // first — may be dropped once by the library, or leaked.
        let never_taken = scn.entry.by_value() && ish.has_drop() && l.begin.is_empty() && panicked;
        if !expect_drop_in && !l.drop_in.is_empty() && !never_taken {
            vs.push(v(
                "double_drop",
                ctx(if scn.entry.by_value() {
                    "by-value input was dropped by divan although the call consumed it"
                } else {
                    "input without a destructor reported a drop"
                }),
            ));
        }
        if expect_drop_in && l.drop_in.is_empty() && !panicked {
            vs.push(v("leak", ctx("by-reference input never dropped")));
        }
        // Order: gen < counts < call < drop.
        if let Some(&(bseq, _)) = l.begin.first() {
            if bseq < gseq || l.counts.iter().any(|c| c.0 > bseq || c.0 < gseq) {
                vs.push(v("lifecycle_order", ctx("counted / called out of order")));
            }
            for d in &l.drop_in {
                if d.0 < bseq {
                    vs.push(v("use_after_drop", ctx("handed to the benchmarked function after it was dropped")));
                }
            }
        }
        // Output (which carries the input's id) before the input.
        if let (Some(d), Some((_, dropped))) = (l.drop_in.first(), outs.get(id)) {
            if let Some(od) = dropped.first() {
                if od.0 > d.0 {
                    vs.push(v("drop_order", ctx("input dropped before the output computed from it")));
                }
            } else if expect_drop_out && !panicked {
                // reported below as a leak of the output
            }
        }
        let _ = n_counters;
    }
    let mut oids: Vec<&u64> = outs.keys().collect();
    oids.sort();
    for oid in oids {
        let (made, dropped) = &outs[oid];
        if made.len() > 1 {
            vs.push(v("called_twice", format!("output {oid} produced {} times", made.len())));
        }
        if dropped.len() > 1 {
            vs.push(v("double_drop", format!("output {oid} dropped {} times", dropped.len())));
        }
        if made.is_empty() && !dropped.is_empty() {
            vs.push(v("never_generated", format!("output {oid} dropped but never produced (uninitialised slot)")));
        }
        if expect_drop_out && osh.sized() && dropped.is_empty() && !made.is_empty() && !panicked {
            vs.push(v("leak", format!("output {oid} never dropped")));
        }
        if let (Some(m), Some(d)) = (made.first(), dropped.first()) {
            if d.0 < m.0 {
                vs.push(v("use_after_drop", format!("output {oid} dropped before it was produced")));
            }
            if d.1 != m.1 {
                vs.push(v("wrong_thread", format!("output {oid} produced on thread {} but dropped on thread {}", m.1, d.1)));
            }
        }
    }

    // Per-sample structure (also covers values without identity).
    for t in 0..p.by_thread.len() {
        for s in &p.by_thread[t] {
            let calls = s.calls_in(&s.win);
            let gens = s.pre.iter().filter(|e| matches!(e.kind, Ev::User(UserEv::Gen { .. }))).count();
            let where_ = format!("thread {t} sample {}", s.round);
            // Everything in its place relative to the sample's timestamps.
            // (Drops before the start timestamp can only be those of an
            // earlier sample's values — late, but after that sample's timed
            // section, which is all the property asks; a value of *this*
            // sample dropped before its call is caught per value.)
            if s.pre.iter().any(|e| matches!(e.kind, Ev::User(UserEv::CallBegin { .. }))) && s.start.is_some() {
                vs.push(v("lifecycle_order", format!("{where_}: benchmarked call before the start timestamp")));
            }
            // (Once a call of the sample has panicked the timed section is
            // abandoned — no end timestamp will be taken; what the unwinding
            // thread drops from then on is not dropped "inside" it. Leaking
            // instead is equally fine.)
            if s
                .win
                .iter()
                .take_while(|e| !matches!(e.kind, Ev::User(UserEv::PanicInjected { .. })))
                .any(|e| matches!(e.kind, Ev::User(UserEv::DropOutput { .. } | UserEv::DropInput { .. })))
            {
                vs.push(v("drop_in_timed_section", format!("{where_}: a value was dropped inside the timed section")));
            }
            if s.post.iter().any(|e| matches!(e.kind, Ev::User(UserEv::CallBegin { .. }))) {
                vs.push(v("lifecycle_order", format!("{where_}: benchmarked call after the end timestamp")));
            }
            if panicked {
                continue;
            }
            if scn.entry.has_inputs() && gens != calls {
                vs.push(v(
                    "gen_call_mismatch",
                    format!("{where_}: {gens} inputs generated but {calls} calls made"),
                ));
            }
            for k in 0..4u8 {
                if !scn.entry.has_inputs() {
                    break;
                }
                let c = s
                    .pre
                    .iter()
                    .filter(|e| matches!(e.kind, Ev::User(UserEv::Count { kind, .. }) if kind == k))
                    .count();
                let want = if scn.input_counters[k as usize] { calls } else { 0 };
                if c != want {
                    vs.push(v(
                        "counter_calls",
                        format!("{where_}: counter kind {k} invoked {c} times for {calls} inputs"),
                    ));
                }
            }
            let d_out = s.post.iter().filter(|e| matches!(e.kind, Ev::User(UserEv::DropOutput { .. }))).count();
            let d_in = s.post.iter().filter(|e| matches!(e.kind, Ev::User(UserEv::DropInput { .. }))).count();
            let want_out = if expect_drop_out { calls } else { 0 };
            let want_in = if expect_drop_in { calls } else { 0 };
            if d_out != want_out {
                vs.push(v(
                    if d_out > want_out { "double_drop" } else { "leak" },
                    format!("{where_}: {d_out} outputs dropped after {calls} calls (expected {want_out})"),
                ));
            }
            if d_in != want_in {
                vs.push(v(
                    if d_in > want_in { "double_drop" } else { "leak" },
                    format!("{where_}: {d_in} inputs dropped after {calls} calls (expected {want_in})"),
                ));
            }
            // Output before its input: the k-th output drop precedes the
            // k-th input drop.
            if want_out > 0 && want_in > 0 && d_out == want_out && d_in == want_in {
                let o: Vec<u32> = s.post.iter().filter(|e| matches!(e.kind, Ev::User(UserEv::DropOutput { .. }))).map(|e| e.seq).collect();
                let i: Vec<u32> = s.post.iter().filter(|e| matches!(e.kind, Ev::User(UserEv::DropInput { .. }))).map(|e| e.seq).collect();
                for k in 0..o.len() {
                    if o[k] > i[k] {
                        vs.push(v("drop_order", format!("{where_}: input {k} dropped before output {k}")));
                        break;
                    }
                }
            }
        }
    }
    vs.dedup();
    vs
}

// ---------------------------------------------------------------------------
// C02 — only the benchmarked calls inside the timed section
// ---------------------------------------------------------------------------

fn check_windows(scn: &LoopScn, p: &Parsed, out: &LoopOut, vs: &mut Vec<Violation>, class_prefix: &str) {
    let t_eff = scn.eff_threads();
    let rounds = rounds_of(p, scn);
    let stored = out.durations.len();
    for t in 0..p.by_thread.len() {
        for s in &p.by_thread[t] {
            if !s.complete() {
                continue;
            }
            let where_ = format!("thread {t} sample {}", s.round);
            // Oracle A: nothing but calls between the two timestamps.
            for e in &s.win {
                match e.kind {
                    Ev::User(
                        UserEv::CallBegin { .. }
                        | UserEv::CallEnd { .. }
                        | UserEv::Consume { .. }
                        | UserEv::AllocOp { .. }
                        | UserEv::PanicInjected { .. },
                    ) => {}
                    other => {
                        vs.push(v(
                            &format!("{class_prefix}foreign_work_in_timed_section"),
                            format!("{where_}: {other:?} (seq {}) between the start (seq {}) and end (seq {}) timestamps", e.seq, s.start.unwrap().seq, s.end.unwrap().seq),
                        ));
                        break;
                    }
                }
            }
            // An AllocOp inside the window must belong to a call.
            let mut depth = 0i32;
            for e in &s.win {
                match e.kind {
                    Ev::User(UserEv::CallBegin { .. }) => depth += 1,
                    Ev::User(UserEv::CallEnd { .. }) => depth -= 1,
                    Ev::User(UserEv::AllocOp { .. }) if depth <= 0 => {
                        vs.push(v(
                            &format!("{class_prefix}foreign_work_in_timed_section"),
                            format!("{where_}: allocator operation inside the timed section but outside any benchmarked call (seq {})", e.seq),
                        ));
                        break;
                    }
                    _ => {}
                }
            }
            for e in s.pre.iter().chain(s.post.iter()) {
                if matches!(e.kind, Ev::User(UserEv::CallBegin { .. })) {
                    vs.push(v(
                        &format!("{class_prefix}call_outside_timed_section"),
                        format!("{where_}: benchmarked call (seq {}) outside the timed section", e.seq),
                    ));
                    break;
                }
            }
            // Oracle B: stored allocation figures == reference tally folded
            // over the ops this thread logged between the two timestamps.
            if scn.test_mode || out.caller_panic.is_some() {
                continue;
            }
            if let Some(idx) = stored_index(s.round, t, rounds, stored, t_eff) {
                let reference = RefTally::fold(s.win.iter());
                let got = out.allocs.get(idx).and_then(|a| a.as_ref());
                if let Some(d) = reference.diff(got) {
                    vs.push(v(
                        &format!("{class_prefix}alloc_attribution"),
                        format!("{where_} (stored sample {idx}): {d}; ops inside the timed section: {}", s.win.iter().filter(|e| matches!(e.kind, Ev::User(UserEv::AllocOp { .. }))).count()),
                    ));
                }
            }
        }
    }
}

pub fn check_c02(scn: &LoopScn, r: &RunResult, out: &LoopOut) -> Vec<Violation> {
    let mut vs = run_failures(scn, r, out, false);
    if r.failure.is_some() {
        return vs;
    }
    let p = parse(r);
    for e in &p.errors {
        vs.push(v("history_shape", e.clone()));
    }
    check_windows(scn, &p, out, &mut vs, "");
    // The calls of a sample are exactly that sample's.
    if let Some(s) = scn.sample_size {
        for t in 0..p.by_thread.len() {
            for sm in &p.by_thread[t] {
                let want = if scn.test_mode { 1 } else { s as usize };
                if sm.complete() && sm.calls_in(&sm.win) != want {
                    vs.push(v(
                        "calls_in_window",
                        format!("thread {t} sample {}: {} calls inside the timed section, sample size is {want}", sm.round, sm.calls_in(&sm.win)),
                    ));
                }
            }
        }
    }
    // Allocator requests made by the code under test itself between a
    // sample's two timestamps (reported by the end read, `dsim::window`).
    let skip_to = r
        .events
        .iter()
        .rposition(|e| matches!(e.kind, Ev::User(UserEv::Mark { tag: crate::looprun::PRELUDE_END, .. })))
        .map_or(0, |p| p + 1);
    for e in &r.events[skip_to..] {
        if let Ev::User(UserEv::Mark { tag: dsim::window::FOREIGN_ALLOC_TAG, a, b }) = e.kind {
            vs.push(v(
                "allocator_work_in_timed_section",
                format!(
                    "thread {}: {a} allocator request(s) (the first of {b} bytes) were made between the start and the end timestamp outside the benchmarked calls (end read at seq {})",
                    e.tid, e.seq
                ),
            ));
            break;
        }
    }
    vs.dedup();
    vs
}

// ---------------------------------------------------------------------------
// C03 — exact call / sample / iteration counts
// ---------------------------------------------------------------------------

pub fn check_c03(scn: &LoopScn, r: &RunResult, out: &LoopOut) -> Vec<Violation> {
    let mut vs = run_failures(scn, r, out, false);
    if r.failure.is_some() {
        return vs;
    }
    let p = parse(r);
    for e in &p.errors {
        vs.push(v("history_shape", e.clone()));
    }
    let t_eff = scn.eff_threads();
    let n = scn.sample_count.unwrap_or(100) as usize;
    let Some(s) = scn.sample_size else {
        return vs; // tuned runs are C19's
    };
    let s = s as usize;
    let zero = n == 0 || s == 0 || scn.max_time == Some((0, 0));
    let rounds = if zero {
        0
    } else if scn.test_mode {
        1
    } else {
        n.div_ceil(t_eff)
    };
    let per_call = if scn.test_mode { 1 } else { s };
    if !out.did_run {
        vs.push(v("did_not_run", "the loop did not mark the benchmark as run".into()));
    }
    for t in 0..p.by_thread.len() {
        let samples = &p.by_thread[t];
        let want_rounds = if t < t_eff { rounds } else { 0 };
        let calls: usize = samples.iter().map(|s| s.all_calls()).sum();
        if samples.len() != want_rounds || calls != want_rounds * per_call {
            vs.push(v(
                "call_count",
                format!(
                    "thread {t}: {} samples / {calls} calls of the benchmarked function, expected {want_rounds} samples / {} calls (n={n}, s={s}, T={t_eff}, {})",
                    samples.len(),
                    want_rounds * per_call,
                    if scn.test_mode { "test mode" } else { "bench mode" }
                ),
            ));
        }
        for sm in samples {
            if sm.all_calls() != per_call {
                vs.push(v(
                    "call_count",
                    format!("thread {t} sample {}: {} calls, expected {per_call}", sm.round, sm.all_calls()),
                ));
                break;
            }
        }
    }
    let want_stored = if scn.test_mode { 0 } else { t_eff * rounds };
    if out.durations.len() != want_stored {
        vs.push(v(
            "sample_count",
            format!("{} samples stored, expected T*ceil(n/T) = {want_stored}", out.durations.len()),
        ));
    }
    if scn.test_mode && out.capacity != 0 {
        vs.push(v("sample_count", "test mode allocated sample storage".into()));
    }
    if !scn.test_mode && rounds > 0 && out.sample_size as usize != s {
        vs.push(v("sample_size", format!("recorded sample size {} != configured {s}", out.sample_size)));
    }
    if let Some(Ok(st)) = &out.stats {
        if st.sample_count as usize != out.durations.len() {
            vs.push(v("reported_counts", format!("reported samples {} != recorded {}", st.sample_count, out.durations.len())));
        }
        let want_iters = out.durations.len() as u64 * if out.durations.is_empty() { 0 } else { s as u64 };
        if st.iter_count != want_iters && !out.durations.is_empty() {
            vs.push(v("reported_counts", format!("reported iters {} != samples*size {want_iters}", st.iter_count)));
        }
        if out.durations.is_empty() && st.iter_count != 0 {
            vs.push(v("reported_counts", format!("reported iters {} with no samples", st.iter_count)));
        }
    }
    vs.dedup();
    vs
}

// ---------------------------------------------------------------------------
// C04 / C19 — the stop rule and the tuning rule on the logged readings
// ---------------------------------------------------------------------------

/// Replays the documented loop on the logged clock readings of the rounds
/// that actually ran. Returns `(violations, first collecting round)`.
fn replay_rule(scn: &LoopScn, p: &Parsed, out: &LoopOut, c19: bool) -> Vec<Violation> {
    replay_rule_on(scn, p, out, c19, None)
}

/// `complete_rounds = Some(k)`: the history was cut off (step budget) after
/// k complete rounds; only "ran longer than the rule allows" can be judged.
fn setup_note(setup: u64) -> String {
    if setup == 0 {
        String::new()
    } else {
        format!(
            " [elapsed counted from just before the first sample; the loop's initial timestamp was taken {setup} ticks earlier, before the one-off measurement of benchmarking overheads]"
        )
    }
}

fn replay_rule_on(
    scn: &LoopScn,
    p: &Parsed,
    out: &LoopOut,
    c19: bool,
    complete_rounds: Option<usize>,
) -> Vec<Violation> {
    let mut vs = Vec::new();
    let f = scn.clock.frequency;
    let t_eff = scn.eff_threads();
    let truncated = complete_rounds.is_some();
    let rounds = complete_rounds.unwrap_or_else(|| rounds_of(p, scn));
    let minp = scn.min_time.map(dur_picos).unwrap_or(0);
    let maxp = scn.max_time.map(dur_picos).unwrap_or(u128::MAX);
    let skip = scn.skip_ext.unwrap_or(false);
    let class = if c19 { "tuning_rule" } else { "stop_rule" };

    if maxp == 0 || scn.sample_count == Some(0) || scn.sample_size == Some(0) {
        if rounds != 0 {
            vs.push(v(class, format!("{rounds} rounds ran although max_time = 0 / sample_count = 0 / sample_size = 0 forbids the first")));
        }
        return vs;
    }
    if scn.test_mode {
        if rounds != 1 {
            vs.push(v(class, format!("test mode ran {rounds} rounds, expected exactly 1")));
        }
        return vs;
    }
    // All threads take part in every round.
    for t in 0..t_eff {
        let n = p.by_thread.get(t).map_or(0, |x| x.len());
        if n != rounds && !truncated {
            vs.push(v(class, format!("thread {t} recorded {n} samples while thread 0.. recorded {rounds} rounds")));
            return vs;
        }
    }
    // "Elapsed time runs from just before the first sample": a one-off
    // overhead measurement that ran *after* the initial timestamp was taken
    // lies before that point, so the origin is the reading plus what the
    // measurement took (nothing, when it ran earlier or cost nothing).
    let setup = p.setup_ticks_after_initial;
    let initial = match (skip, p.initial) {
        (false, Some(e)) => raw_of(e).map(|x| x.wrapping_add(setup)),
        (false, None) => {
            if rounds > 0 {
                vs.push(v(class, "elapsed time must run from just before the first sample, but no initial timestamp was taken before the first round".into()));
            }
            return vs;
        }
        (true, _) => None,
    };
    if let (false, Some(ie)) = (skip, p.initial) {
        // "from just before the first sample": before any thread's first
        // workload event.
        if let Some(first) = p.by_thread.iter().flatten().flat_map(|s| s.pre.iter().chain(s.win.iter())).map(|e| e.seq).min() {
            if ie.seq > first {
                vs.push(v(class, format!("initial timestamp (seq {}) taken after the first sample's work began (seq {first})", ie.seq)));
            }
        }
    }

    let mut tuning = scn.sample_size.is_none();
    let mut size: u64 = scn.sample_size.map(|s| s as u64).unwrap_or(1);
    let mut rem: Option<u64> = if tuning { None } else { Some(scn.sample_count.unwrap_or(100) as u64) };
    let mut elapsed: u128 = 0;
    let mut stored: usize = 0;
    let precision = p.precision;
    if tuning && precision.is_none() && rounds > 0 {
        vs.push(v(class, "tuning ran without measuring the timer precision".into()));
        return vs;
    }
    let mut r = 0usize;
    loop {
        let cont = elapsed < maxp && (rem.unwrap_or(1) > 0 || elapsed < minp);
        if !cont {
            if rounds != r {
                vs.push(v(
                    class,
                    format!(
                        "{rounds} rounds ran, but the rule stops after round {r}: elapsed {elapsed} ps, max_time {maxp} ps, min_time {minp} ps, samples still wanted {:?}{}",
                        rem, setup_note(setup)
                    ),
                ));
            }
            break;
        }
        if r >= rounds && truncated {
            // Cut off by the step budget while the rule still says continue:
            // nothing to report.
            break;
        }
        if r >= rounds {
            vs.push(v(
                class,
                format!(
                    "sampling stopped after {rounds} rounds, but the rule continues: elapsed {elapsed} ps < max_time {maxp} ps and (samples still wanted {:?} or elapsed < min_time {minp} ps){}",
                    rem, setup_note(setup)
                ),
            ));
            break;
        }
        // Round r ran: every thread made `size` calls.
        let mut slowest: u128 = 0;
        let mut last_end: u64 = 0;
        let mut ok = true;
        for t in 0..t_eff {
            let s: &Samp = &p.by_thread[t][r];
            let (Some(a), Some(b)) = (s.start_raw(), s.end_raw()) else {
                ok = false;
                break;
            };
            slowest = slowest.max(conv(a, b, f));
            last_end = last_end.max(b);
            let calls = s.all_calls() as u64;
            if calls != size && !p.injected_panic {
                vs.push(v(
                    if c19 { "tuning_rule" } else { "sample_size" },
                    format!("round {r} thread {t}: {calls} calls, expected sample size {size}{}", if tuning { " (doubling from 1)" } else { "" }),
                ));
                ok = false;
            }
        }
        if !ok {
            break;
        }
        if tuning {
            stored = 0; // earlier rounds are discarded
            let pr = precision.unwrap().max(1);
            if slowest / pr <= 100 {
                size *= 2;
            } else {
                tuning = false;
                rem = Some(scn.sample_count.unwrap_or(100) as u64);
            }
        }
        stored += t_eff;
        if let Some(x) = &mut rem {
            *x = x.saturating_sub(t_eff as u64);
        }
        elapsed = if skip {
            elapsed.saturating_add(slowest.max(1000))
        } else {
            conv(initial.unwrap(), last_end, f)
        };
        r += 1;
        if r > 100_000 {
            break;
        }
    }
    if vs.is_empty() && out.caller_panic.is_none() && !truncated {
        if out.durations.len() != stored {
            vs.push(v(
                if c19 { "tuning_rule" } else { "stored_samples" },
                format!("{} samples stored, the rule yields {stored} (earlier tuning rounds are discarded, the round that passed the threshold counts as the first)", out.durations.len()),
            ));
        }
    }
    vs
}

/// A run of a time-limited scenario that exhausted the step budget: a
/// violation only if the documented rule, evaluated on the readings of the
/// rounds that completed, had already said "stop" (the loop ran longer than
/// allowed, e.g. forever). If the rule still says "continue", the scenario
/// simply needs more rounds than the budget covers — inconclusive, not a
/// finding.
pub fn judge_step_budget(scn: &LoopScn, r: &RunResult) -> Vec<Violation> {
    let p = parse(r);
    // A precision that is not the clock's step explains many an endless
    // tuning phase; it is a violation of its own (C11), whatever the stop
    // rule says about the rounds that ran.
    let pv = precision_clause(scn, &p);
    if !pv.is_empty() {
        return pv;
    }
    let t_eff = scn.eff_threads();
    let complete = (0..t_eff)
        .map(|t| p.by_thread.get(t).map_or(0, |x| x.iter().take_while(|s| s.complete()).count()))
        .min()
        .unwrap_or(0);
    replay_rule_on(scn, &p, &LoopOut::default(), false, Some(complete))
}

pub fn check_c04(scn: &LoopScn, r: &RunResult, out: &LoopOut) -> Vec<Violation> {
    let mut vs = run_failures(scn, r, out, false);
    if r.failure.is_some() {
        return vs;
    }
    let p = parse(r);
    for e in &p.errors {
        vs.push(v("history_shape", e.clone()));
    }
    vs.extend(replay_rule(scn, &p, out, false));
    vs.dedup();
    vs
}

pub fn check_c19(scn: &LoopScn, r: &RunResult, out: &LoopOut) -> Vec<Violation> {
    let mut vs = run_failures(scn, r, out, false);
    if r.failure.is_some() {
        return vs;
    }
    let p = parse(r);
    for e in &p.errors {
        vs.push(v("history_shape", e.clone()));
    }
    vs.extend(replay_rule(scn, &p, out, true));
    if !vs.is_empty() {
        vs.dedup();
        return vs;
    }
    // All reported samples use the final size; data of discarded rounds is
    // gone; the stored data belongs to the last rounds.
    let t_eff = scn.eff_threads();
    let rounds = rounds_of(&p, scn);
    let stored = out.durations.len();
    if stored > 0 && rounds > 0 {
        let last_size = p.by_thread[0][rounds - 1].all_calls() as u32;
        if out.sample_size != last_size {
            vs.push(v("tuning_rule", format!("reported sample size {} but the last round made {last_size} calls per sample", out.sample_size)));
        }
        let first = rounds - stored / t_eff.max(1);
        for rr in first..rounds {
            for t in 0..t_eff {
                let c = p.by_thread[t][rr].all_calls() as u32;
                if c != out.sample_size {
                    vs.push(v("tuning_rule", format!("stored round {rr} thread {t} used sample size {c}, reported size is {}", out.sample_size)));
                }
            }
        }
        if let Some(Ok(st)) = &out.stats {
            if st.sample_count as usize != stored || st.iter_count != stored as u64 * out.sample_size as u64 {
                vs.push(v("tuning_rule", format!("reported samples/iters {}/{} do not match {stored} stored samples of size {}", st.sample_count, st.iter_count, out.sample_size)));
            }
        }
    }
    // Allocation and counter data only for the stored rounds.
    if out.allocs.len() != stored {
        vs.push(v("tuning_rule", format!("{} allocation records for {stored} samples", out.allocs.len())));
    }
    for k in 0..4 {
        if scn.input_counters[k] && scn.entry.has_inputs() && out.counts[k].len() != stored {
            vs.push(v(
                "tuning_rule",
                format!("{} per-input counter values of kind {k} kept for {stored} stored samples (data of discarded tuning rounds must be discarded too)", out.counts[k].len()),
            ));
        }
    }
    {
        // Stored alloc data must be that of the stored rounds.
        let mut tmp = Vec::new();
        check_windows(scn, &p, out, &mut tmp, "");
        vs.extend(tmp.into_iter().filter(|x| x.class == "alloc_attribution").map(|x| v("tuning_rule", format!("allocation data not that of the stored rounds: {}", x.message))));
    }
    vs.dedup();
    vs
}

// ---------------------------------------------------------------------------
// C05 — statistics are the exact order statistics of the samples
// ---------------------------------------------------------------------------

fn expected_durations(scn: &LoopScn, p: &Parsed, out: &LoopOut) -> Option<Vec<u128>> {
    let f = scn.clock.frequency;
    let t_eff = scn.eff_threads();
    let rounds = rounds_of(p, scn);
    let stored = out.durations.len();
    if stored % t_eff != 0 {
        return None;
    }
    let prec = if scn.sample_size.is_none() { p.precision.unwrap_or(0) } else { 0 };
    let clamp = |d: u128| if d == 0 { prec } else { d };
    let first = rounds.checked_sub(stored / t_eff)?;
    let size = out.sample_size as u128;
    let mut want = Vec::with_capacity(stored);
    for rr in first..rounds {
        for t in 0..t_eff {
            let s = p.by_thread.get(t)?.get(rr)?;
            let raw = conv(s.start_raw()?, s.end_raw()?, f);
            let idx = (rr - first) * t_eff + t;
            // Operation counts from the reference tally of the window (what
            // the thread really did between the two timestamps), not from the
            // stored allocation info, which has its own check.
            let _ = idx;
            let a = RefTally::fold(&s.win);
            let overhead = scn.overheads[0]
                .saturating_mul(size)
                .saturating_add(scn.overheads[1].saturating_mul(a.t[2].0 as u128))
                .saturating_add(scn.overheads[2].saturating_mul(a.t[3].0 as u128))
                .saturating_add(scn.overheads[3].saturating_mul(a.t[0].0 as u128 + a.t[1].0 as u128));
            want.push(clamp(clamp(raw).saturating_sub(overhead)));
        }
    }
    Some(want)
}

fn close(a: f64, b: f64) -> bool {
    if a == b {
        return true;
    }
    if !a.is_finite() || !b.is_finite() {
        return false;
    }
    let scale = a.abs().max(b.abs()).max(1e-300);
    (a - b).abs() / scale <= 1e-9
}

/// Order-statistics reference model (appendix C).
fn check_stats(scn: &LoopScn, out: &LoopOut, st: &StatsPlain, vs: &mut Vec<Violation>) {
    let d = &out.durations;
    let n = d.len();
    let s = out.sample_size as u128;
    let mut order: Vec<usize> = (0..n).collect();
    order.sort_by_key(|&i| d[i]);
    let (fastest, slowest, median, mean);
    if n == 0 || s == 0 {
        fastest = 0;
        slowest = 0;
        median = 0;
        mean = 0;
    } else {
        fastest = d[order[0]] / s;
        slowest = d[order[n - 1]] / s;
        median = if n % 2 == 1 {
            d[order[n / 2]] / s
        } else {
            ((d[order[n / 2 - 1]] + d[order[n / 2]]) / 2) / s
        };
        mean = d.iter().sum::<u128>() / (n as u128 * s);
    }
    let names = ["fastest", "slowest", "median", "mean"];
    let want = [fastest, slowest, median, mean];
    for i in 0..4 {
        if st.time[i] != want[i] {
            vs.push(v(
                "time_stats",
                format!("{} = {} ps, the order statistics of the {n} recorded samples (size {s}) give {} ps", names[i], st.time[i], want[i]),
            ));
        }
    }
    if n > 0 && !(st.time[0] <= st.time[2] && st.time[2] <= st.time[1] && st.time[0] <= st.time[3] && st.time[3] <= st.time[1]) {
        vs.push(v("time_stats", format!("fastest <= median, mean <= slowest violated: {:?}", st.time)));
    }
    if st.sample_count as usize != n || st.iter_count != n as u64 * out.sample_size as u64 {
        vs.push(v("reported_counts", format!("samples/iters {}/{} for {n} samples of size {}", st.sample_count, st.iter_count, out.sample_size)));
    }

    // No NaN anywhere; finite everywhere (no throughput lives in Stats).
    let mut floats: Vec<(String, f64)> = Vec::new();
    for i in 0..4 {
        floats.push((format!("max_alloc.count.{}", names[i]), st.max_alloc_count[i]));
        floats.push((format!("max_alloc.size.{}", names[i]), st.max_alloc_size[i]));
        for (o, op) in ["grow", "shrink", "alloc", "dealloc"].iter().enumerate() {
            floats.push((format!("{op}.count.{}", names[i]), st.alloc_tallies[o].0[i]));
            floats.push((format!("{op}.size.{}", names[i]), st.alloc_tallies[o].1[i]));
        }
    }
    for (name, x) in &floats {
        if x.is_nan() {
            vs.push(v("nan", format!("statistic {name} is NaN ({n} samples of size {s})")));
            return;
        }
    }
    if n == 0 || s == 0 {
        return;
    }

    // Allocation figures: those of a sample attaining the time.
    let zero = divan::verif::AllocPlain::default();
    let alloc = |i: usize| out.allocs.get(i).and_then(|a| a.as_ref()).unwrap_or(&zero);
    let sf = s as f64;
    // Field extractors: (name, stats column array, per-sample value).
    type Get = Box<dyn Fn(&divan::verif::AllocPlain) -> f64>;
    let mut fields: Vec<(String, [f64; 4], Get)> = Vec::new();
    fields.push(("max_alloc.count".into(), st.max_alloc_count, Box::new(|a| a.max_count as f64)));
    fields.push(("max_alloc.size".into(), st.max_alloc_size, Box::new(|a| a.max_size as f64)));
    for (o, op) in ["grow", "shrink", "alloc", "dealloc"].iter().enumerate() {
        fields.push((format!("{op}.count"), st.alloc_tallies[o].0, Box::new(move |a| a.tallies[o].0 as f64)));
        fields.push((format!("{op}.size"), st.alloc_tallies[o].1, Box::new(move |a| a.tallies[o].1 as f64)));
    }
    let fset: Vec<usize> = (0..n).filter(|&i| d[i] == d[order[0]]).collect();
    let sset: Vec<usize> = (0..n).filter(|&i| d[i] == d[order[n - 1]]).collect();
    // Admissible median samples under ties.
    let med_pairs: Vec<(usize, Option<usize>)> = if n % 2 == 1 {
        let dm = d[order[n / 2]];
        (0..n).filter(|&i| d[i] == dm).map(|i| (i, None)).collect()
    } else {
        let (d1, d2) = (d[order[n / 2 - 1]], d[order[n / 2]]);
        let mut prs = Vec::new();
        for i in (0..n).filter(|&i| d[i] == d1) {
            for j in (0..n).filter(|&j| d[j] == d2 && j != i) {
                prs.push((i, Some(j)));
            }
        }
        prs
    };
    for (name, got, get) in &fields {
        if !fset.iter().any(|&i| close(got[0], get(alloc(i)) / sf)) {
            vs.push(v("alloc_stats", format!("{name} under fastest = {}, no fastest sample ({fset:?}) has that figure", got[0])));
        }
        if !sset.iter().any(|&i| close(got[1], get(alloc(i)) / sf)) {
            vs.push(v("alloc_stats", format!("{name} under slowest = {}, no slowest sample ({sset:?}) has that figure", got[1])));
        }
        let med_ok = med_pairs.iter().any(|&(i, j)| {
            let want = match j {
                None => get(alloc(i)) / sf,
                Some(j) => (get(alloc(i)) + get(alloc(j))) / 2.0 / sf,
            };
            close(got[2], want)
        });
        if !med_ok {
            vs.push(v("alloc_stats", format!("{name} under median = {}, no admissible median sample/pair has that figure", got[2])));
        }
        let total: f64 = (0..n).map(|i| get(alloc(i))).sum();
        let want_mean = total / (n as f64 * sf);
        if !close(got[3], want_mean) {
            vs.push(v("alloc_stats", format!("{name} mean = {}, expected total/iterations = {want_mean}", got[3])));
        }
    }
    // All columns of one statistic must come from one and the same sample:
    // check consistency for the fastest / slowest columns.
    for (col, set) in [(0usize, &fset), (1usize, &sset)] {
        let consistent = set.iter().any(|&i| fields.iter().all(|(_, got, get)| close(got[col], get(alloc(i)) / sf)));
        if !consistent {
            vs.push(v("alloc_stats", format!("allocation figures under {} do not all belong to one sample that attains it", names[col])));
        }
    }

    // Counters.
    for k in 0..4 {
        let per_input = scn.input_counters[k] && scn.entry.has_inputs();
        let got = st.counts[k];
        if per_input {
            let c = &out.counts[k];
            if c.len() != n {
                vs.push(v("counter_stats", format!("{} per-sample counter values of kind {k} for {n} samples", c.len())));
                continue;
            }
            let Some(g) = got else {
                vs.push(v("counter_stats", format!("no counter statistics of kind {k} although inputs were counted")));
                continue;
            };
            if !fset.iter().any(|&i| c[i] == g[0]) {
                vs.push(v("counter_stats", format!("counter {k} under fastest = {}, fastest samples have {:?}", g[0], fset.iter().map(|&i| c[i]).collect::<Vec<_>>())));
            }
            if !sset.iter().any(|&i| c[i] == g[1]) {
                vs.push(v("counter_stats", format!("counter {k} under slowest = {}, slowest samples have {:?}", g[1], sset.iter().map(|&i| c[i]).collect::<Vec<_>>())));
            }
            let med_ok = med_pairs.iter().any(|&(i, j)| match j {
                None => c[i] == g[2],
                Some(j) => ((c[i] as u128 + c[j] as u128) / 2) as u64 == g[2],
            });
            if !med_ok {
                vs.push(v("counter_stats", format!("counter {k} under median = {}, no admissible median sample/pair matches", g[2])));
            }
            let mean = (c.iter().map(|&x| x as u128).sum::<u128>() / n as u128) as u64;
            if g[3] != mean {
                vs.push(v("counter_stats", format!("counter {k} mean = {}, expected {mean}", g[3])));
            }
        } else {
            let constant = scn.bencher_counters[k].or(scn.const_counters[k]);
            // `Bencher::counter` is only applied by the entry points that
            // call it for that kind (see looprun::drive).
            let applied = match (scn.entry.has_inputs(), k) {
                (true, _) => constant,
                (false, _) => {
                    let via_bencher = match (scn.entry, k) {
                        (crate::looprun::Entry::Bench, 0) | (crate::looprun::Entry::Bench, 3) => scn.bencher_counters[k],
                        (crate::looprun::Entry::BenchLocal, 1) => scn.bencher_counters[k],
                        _ => None,
                    };
                    via_bencher.or(scn.const_counters[k])
                }
            };
            match (applied, got) {
                (None, None) => {}
                (Some(c), Some(g)) => {
                    if g != [c; 4] {
                        vs.push(v("counter_stats", format!("constant counter {k} = {c} reported as {g:?}")));
                    }
                }
                (a, g) => vs.push(v("counter_stats", format!("constant counter {k}: configured {a:?}, reported {g:?}"))),
            }
        }
    }
}

pub fn check_c05(scn: &LoopScn, r: &RunResult, out: &LoopOut) -> Vec<Violation> {
    let mut vs = run_failures(scn, r, out, false);
    if r.failure.is_some() {
        return vs;
    }
    let p = parse(r);
    for e in &p.errors {
        vs.push(v("history_shape", e.clone()));
    }
    if scn.test_mode {
        return vs;
    }
    // (a) each stored duration from the logged readings.
    match expected_durations(scn, &p, out) {
        Some(want) => {
            for (i, (&g, &w)) in out.durations.iter().zip(want.iter()).enumerate() {
                if g != w {
                    vs.push(v("stored_duration", format!("stored sample {i} = {g} ps, the logged readings give {w} ps")));
                    break;
                }
            }
        }
        None => vs.push(v("history_shape", "stored samples do not line up with the recorded rounds".into())),
    }
    // Per-input counter value per iteration = sum over the sample's inputs / s.
    {
        let t_eff = scn.eff_threads();
        let rounds = rounds_of(&p, scn);
        let stored = out.durations.len();
        for k in 0..4 {
            if !(scn.input_counters[k] && scn.entry.has_inputs()) {
                continue;
            }
            for t in 0..t_eff {
                for sm in p.by_thread.get(t).map(|x| x.as_slice()).unwrap_or(&[]) {
                    let Some(idx) = stored_index(sm.round, t, rounds, stored, t_eff) else { continue };
                    // "the sum over the sample's inputs": over the inputs the
                    // generator produced for this sample (what the counter
                    // says about each is a pure function of its identity),
                    // whether or not the library showed them to the counter.
                    let sum: u128 = sm
                        .pre
                        .iter()
                        .chain(sm.win.iter())
                        .chain(sm.post.iter())
                        .filter_map(|e| match e.kind {
                            Ev::User(UserEv::Gen { id }) => Some(scn.counter_value(k, id) as u128),
                            _ => None,
                        })
                        .sum();
                    let want = (sum / (out.sample_size.max(1) as u128)) as u64;
                    if let Some(&g) = out.counts[k].get(idx) {
                        if g != want {
                            vs.push(v("counter_value", format!("sample {idx}: per-iteration counter {k} = {g}, sum over inputs / sample size = {want}")));
                        }
                    }
                }
            }
        }
    }
    // The allocation figures kept for a sample are those of that very sample:
    // the reference tally of what its thread did between its two timestamps.
    if out.caller_panic.is_none() {
        let t_eff = scn.eff_threads();
        let rounds = rounds_of(&p, scn);
        let stored = out.durations.len();
        'outer: for t in 0..t_eff {
            for sm in p.by_thread.get(t).map(|x| x.as_slice()).unwrap_or(&[]) {
                if !sm.complete() {
                    continue;
                }
                let Some(idx) = stored_index(sm.round, t, rounds, stored, t_eff) else { continue };
                // ... and the sample size every figure is divided by is the
                // number of calls the sample really made.
                if sm.all_calls() as u64 != out.sample_size as u64 && !p.injected_panic {
                    vs.push(v(
                        "sample_size_figure",
                        format!("stored sample {idx} (thread {t}, round {}) made {} calls, but the recorded sample size is {}", sm.round, sm.all_calls(), out.sample_size),
                    ));
                    break 'outer;
                }
                let reference = RefTally::fold(sm.win.iter());
                let got = out.allocs.get(idx).and_then(|a| a.as_ref());
                if let Some(d) = reference.diff(got) {
                    vs.push(v(
                        "alloc_of_sample",
                        format!("allocation figures kept for stored sample {idx} (thread {t}, round {}) are not those of that sample: {d}", sm.round),
                    ));
                    break 'outer;
                }
            }
        }
    }
    // (b)(c)(d)
    match &out.stats {
        None => {
            if out.did_run && out.caller_panic.is_none() {
                vs.push(v("history_shape", "no statistics were computed".into()));
            }
        }
        Some(Err(m)) => vs.push(v(
            "stats_panic",
            format!(
                "computing statistics panicked: {m} [{}] with {} samples of size {}",
                out.stats_panic_location.clone().unwrap_or_default(),
                out.durations.len(),
                out.sample_size
            ),
        )),
        Some(Ok(st)) => {
            check_stats(scn, out, st, &mut vs);
            match &out.painted {
                Some(Err(m)) => vs.push(v("paint_panic", format!("printing statistics panicked: {m}"))),
                Some(Ok(text)) => {
                    if text.contains("NaN") {
                        vs.push(v("nan", format!("printed statistics contain NaN: {:?}", text.lines().find(|l| l.contains("NaN")).unwrap_or(""))));
                    }
                }
                None => {}
            }
        }
    }
    vs.dedup();
    vs
}

// ---------------------------------------------------------------------------
// C08 — lock-step of parallel threads
// ---------------------------------------------------------------------------

pub fn check_c08(scn: &LoopScn, r: &RunResult, out: &LoopOut) -> Vec<Violation> {
    let mut vs = Vec::new();
    // (4) a panic on any thread ends the run with a panic on the caller.
    if let Some(f) = &r.failure {
        match f {
            Failure::Deadlock { blocked } if scn.panic.is_some() || scn.panic2.is_some() => {
                vs.push(v(
                    "hang_on_panic",
                    format!(
                        "benchmarked function / generator panicked on thread(s) {:?} and the run hangs instead of panicking on the caller; blocked: {}",
                        scn.panic.iter().chain(scn.panic2.iter()).flat_map(|p| p.tids.clone()).collect::<Vec<_>>(),
                        blocked.iter().map(|(t, w)| format!("thread {t} in {w}")).collect::<Vec<_>>().join(", ")
                    ),
                ));
            }
            other => {
                if let Some(fv) = crate::batch::failure_violation(other) {
                    vs.push(fv);
                }
            }
        }
        return vs;
    }
    vs.extend(run_failures(scn, r, out, true));
    let p = parse(r);
    let fired = p.injected_panic;
    if fired && out.caller_panic.is_none() {
        vs.push(v("panic_swallowed", "a thread panicked but the run did not end with a panic on the calling thread".into()));
    }
    if !fired {
        for e in &p.errors {
            vs.push(v("history_shape", e.clone()));
        }
    }
    let t_eff = scn.eff_threads();
    let rounds = (0..t_eff).map(|t| p.by_thread.get(t).map_or(0, |x| x.len())).min().unwrap_or(0);
    for rr in 0..rounds {
        let samples: Vec<&Samp> = (0..t_eff).map(|t| &p.by_thread[t][rr]).collect();
        if samples.iter().any(|s| !s.complete()) {
            continue; // a panic cut the round short
        }
        // (1) all untimed preparation before any start timestamp.
        let last_pre = samples
            .iter()
            .flat_map(|s| s.pre.iter().map(move |e| (e.seq, s.tid, e.kind)))
            .max_by_key(|x| x.0);
        let first_start = samples.iter().map(|s| (s.start.unwrap().seq, s.tid)).min().unwrap();
        if let Some((seq, tid, kind)) = last_pre {
            if seq > first_start.0 {
                vs.push(v(
                    "start_before_all_ready",
                    format!(
                        "round {rr}: thread {} took its start timestamp (seq {}) before thread {tid} had finished preparing ({kind:?} at seq {seq})",
                        first_start.1, first_start.0
                    ),
                ));
            }
        }
        for s in &samples {
            if !s.pre.iter().any(|e| matches!(e.kind, Ev::TallyCleared)) {
                vs.push(v("tally_not_cleared", format!("round {rr}: thread {} started its timed section without its allocation tally having been cleared", s.tid)));
            }
        }
        // (2) no drop before every thread's end timestamp.
        let last_end = samples.iter().map(|s| (s.end.unwrap().seq, s.tid)).max().unwrap();
        let first_post = samples
            .iter()
            .flat_map(|s| s.post.iter().map(move |e| (e.seq, s.tid, e.kind)))
            .min_by_key(|x| x.0);
        if let Some((seq, tid, kind)) = first_post {
            if seq < last_end.0 {
                vs.push(v(
                    "drop_before_all_ended",
                    format!(
                        "round {rr}: thread {tid} began its untimed work after the sample ({kind:?} at seq {seq}) before thread {} had taken its end timestamp (seq {})",
                        last_end.1, last_end.0
                    ),
                ));
            }
        }
    }
    // (3) each thread's sample reports only that thread's own allocations.
    if !fired {
        check_windows(scn, &p, out, &mut vs, "");
    }
    vs.dedup();
    vs
}

// ---------------------------------------------------------------------------
// C11 — conversion of readings to picoseconds
// ---------------------------------------------------------------------------

pub fn check_c11(scn: &LoopScn, r: &RunResult, out: &LoopOut) -> Vec<Violation> {
    let mut vs = run_failures(scn, r, out, false);
    if r.failure.is_some() {
        return vs;
    }
    let p = parse(r);
    for e in &p.errors {
        vs.push(v("history_shape", e.clone()));
    }
    let f = scn.clock.frequency;
    if !scn.test_mode {
        match expected_durations(scn, &p, out) {
            Some(want) => {
                for (i, (&g, &w)) in out.durations.iter().zip(want.iter()).enumerate() {
                    if g != w {
                        vs.push(v(
                            "conversion",
                            format!("stored sample {i} = {g} ps; floor((b-a)*10^12/f) on the logged readings (f = {f} Hz) = {w} ps"),
                        ));
                        break;
                    }
                }
            }
            None => vs.push(v("history_shape", "stored samples do not line up with the recorded rounds".into())),
        }
    }
    // Direct checks of the conversion on this run's readings through the
    // real function, incl. reversed pairs (skew) and consecutive readings
    // (monotonicity, additivity up to 1 ps per term, translation invariance).
    let reads: Vec<u64> = r.events.iter().filter_map(raw_of).collect();
    for w in reads.windows(3) {
        let (a, b, c) = (w[0], w[1], w[2]);
        // The real conversion, called directly; a panic inside it (overflow
        // checks are on in this build) is a finding, not a harness crash.
        let panicked = std::cell::Cell::new(None::<(u64, u64)>);
        let d = |x: u64, y: u64| {
            std::panic::catch_unwind(|| divan::verif::tsc_duration(x, y, f)).unwrap_or_else(|_| {
                panicked.set(Some((x, y)));
                u128::MAX
            })
        };
        let report_panic = |vs: &mut Vec<Violation>| {
            if let Some((x, y)) = panicked.get() {
                vs.push(v(
                    "conversion_panic",
                    format!(
                        "duration_since({y}, {x}) at {f} Hz panicked: {}",
                        crate::common::take_last_panic().unwrap_or_default()
                    ),
                ));
                true
            } else {
                false
            }
        };
        for (x, y) in [(a, b), (b, a), (a, c), (b, c)] {
            let got = d(x, y);
            if report_panic(&mut vs) {
                return vs;
            }
            let _ = got;
            if d(x, y) != conv(x, y, f) {
                vs.push(v("conversion", format!("duration_since({y}, {x}) at {f} Hz = {} ps, expected {} ps", d(x, y), conv(x, y, f))));
                return vs;
            }
        }
        if a <= b && b <= c {
            if d(a, b) > d(a, c) {
                vs.push(v("conversion", format!("not monotone: d({a},{b}) > d({a},{c})")));
            }
            let sum = d(a, b) + d(b, c);
            let whole = d(a, c);
            if sum > whole || whole - sum > 1 {
                vs.push(v("conversion", format!("not additive up to 1 ps per term: d({a},{b}) + d({b},{c}) = {sum}, d({a},{c}) = {whole}")));
            }
            // Translation invariance.
            let shift = u64::MAX - c;
            if d(a + shift, b + shift) != d(a, b) {
                vs.push(v("conversion", format!("depends on the absolute counter value: d({a},{b}) != d({},{})", a + shift, b + shift)));
            }
        }
    }
    // Duration -> picoseconds where the loop consumes it.
    for d in [scn.min_time, scn.max_time].into_iter().flatten() {
        let got = divan::verif::duration_to_picos(crate::looprun::to_duration(d));
        if got != dur_picos(d) {
            vs.push(v("duration_conversion", format!("Duration {:?} converted to {got} ps, expected {} ps", d, dur_picos(d))));
        }
    }
    vs.extend(precision_clause(scn, &p));
    let _ = (Shape::Z, PanicPhase::Gen);
    vs.dedup();
    vs
}

/// Precision clause: on a uniform-step clock with 0 < read_cost <= step the
/// reported precision is the step. Evaluated on whatever history there is —
/// also when the run did not get to its end (a wrong precision is a common
/// reason for that: tuning compares against it).
pub fn precision_clause(scn: &LoopScn, p: &Parsed) -> Vec<Violation> {
    let mut vs = Vec::new();
    let f = scn.clock.frequency;
    if let (Some(ps), None) = (p.precision, scn.precision_override) {
        let step = scn.clock.step.max(1);
        if scn.clock.read_cost > 0 && scn.clock.read_cost <= step && scn.clock_faults.is_empty() {
            let want = step as u128 * 1_000_000_000_000 / f as u128;
            if ps != want && want > 0 {
                vs.push(v(
                    "precision",
                    format!("measured precision {ps} ps on a clock advancing in uniform steps of {step} ticks at {f} Hz; the step is {want} ps"),
                ));
            }
        }
    }
    vs
}
