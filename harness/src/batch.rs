//! The seeded search: many short, diverse simulated runs on all cores; the
//! evidence aggregator; replay files; minimisation; known findings.

use std::{
    collections::{BTreeMap, HashSet},
    path::{Path, PathBuf},
    sync::{
        atomic::{AtomicBool, AtomicU64, Ordering},
        Mutex,
    },
    time::{Duration, Instant},
};

use dsim::{rng, rng::Rng, Failure, RunConfig, RunResult, StrategySpec};
use serde_json::{json, Value};

use crate::common::{Prop, Tier, Violation};

/// One kind of simulated scenario (pool history, loop run, allocator script).
pub trait Case: Clone + Send + Sync + 'static {
    type Out: Send + 'static;

    fn generate(rng: &mut Rng, prop: Prop, tier: Tier) -> Self;
    fn to_json(&self) -> Value;
    fn from_json(v: &Value) -> Option<Self>;
    /// Hash of the scenario's shape (for the distinctness count).
    fn shape(&self) -> u64;
    /// Estimated number of scheduling steps (PCT change points are drawn
    /// over it) and maximum number of simulated threads.
    fn est_len(&self) -> u32;
    fn max_threads(&self) -> usize;
    fn run_config(&self, seed: u64, strategy: StrategySpec) -> RunConfig;
    fn execute(&self, cfg: RunConfig) -> (RunResult, Self::Out);
    fn check(&self, prop: Prop, r: &RunResult, out: &Self::Out) -> Vec<Violation>;
    /// "This rare condition was hit" probes computed over the history.
    fn probes(&self, prop: Prop, r: &RunResult, out: &Self::Out) -> Vec<&'static str>;
    /// Extra distinctness key for runs without concurrency (appendix F).
    fn outcome_key(&self, _r: &RunResult, _out: &Self::Out) -> u64 {
        0
    }
    /// Non-trivial without concurrency or faults (e.g. >= 2 stored samples).
    fn nontrivial_alone(&self, _r: &RunResult, _out: &Self::Out) -> bool {
        false
    }
    fn shrink_candidates(&self) -> Vec<Self>;
    /// One-line human description for evidence samples.
    fn describe(&self) -> String {
        self.to_json().to_string()
    }
}

#[derive(Clone, Debug)]
pub struct Found<C: Case> {
    pub run_index: u64,
    pub run_seed: u64,
    pub scn: C,
    pub strategy: StrategySpec,
    pub choices: Vec<u8>,
    pub deviations: Vec<(usize, usize)>,
    pub violations: Vec<Violation>,
    pub runs_before: u64,
}

#[derive(Default)]
pub struct Agg {
    pub evaluations: u64,
    pub nontrivial: u64,
    pub distinct: HashSet<u64>,
    pub interleavings: HashSet<u64>,
    pub tiny_interleavings: HashSet<u64>,
    pub tiny_curve: Vec<(u64, u64)>,
    pub tiny_runs: u64,
    pub faults_fired: BTreeMap<String, u64>,
    pub probes: BTreeMap<String, u64>,
    pub strategies: BTreeMap<String, u64>,
    pub threads_hist: BTreeMap<usize, u64>,
    pub decisions_total: u64,
    pub steps_total: u64,
    pub events_total: u64,
    pub ticks_total: u128,
    pub ps_total: u128,
    pub recheck_runs: u64,
    pub recheck_mismatches: u64,
    pub samples: Vec<Value>,
    pub known_hits: BTreeMap<String, u64>,
    pub failing_runs: u64,
}

impl Agg {
    fn merge(&mut self, o: Agg) {
        self.evaluations += o.evaluations;
        self.nontrivial += o.nontrivial;
        self.distinct.extend(o.distinct);
        self.interleavings.extend(o.interleavings);
        self.tiny_interleavings.extend(o.tiny_interleavings);
        self.tiny_runs += o.tiny_runs;
        for (k, v) in o.faults_fired {
            *self.faults_fired.entry(k).or_insert(0) += v;
        }
        for (k, v) in o.probes {
            *self.probes.entry(k).or_insert(0) += v;
        }
        for (k, v) in o.strategies {
            *self.strategies.entry(k).or_insert(0) += v;
        }
        for (k, v) in o.threads_hist {
            *self.threads_hist.entry(k).or_insert(0) += v;
        }
        self.decisions_total += o.decisions_total;
        self.steps_total += o.steps_total;
        self.events_total += o.events_total;
        self.ticks_total += o.ticks_total;
        self.ps_total += o.ps_total;
        self.recheck_runs += o.recheck_runs;
        self.recheck_mismatches += o.recheck_mismatches;
        for s in o.samples {
            if self.samples.len() < 6 {
                self.samples.push(s);
            }
        }
        for (k, v) in o.known_hits {
            *self.known_hits.entry(k).or_insert(0) += v;
        }
        self.failing_runs += o.failing_runs;
    }
}

pub struct BatchCfg {
    pub prop: Prop,
    pub tier: Tier,
    pub seed: u64,
    pub runs: u64,
    pub wall: Duration,
    pub workers: usize,
    /// Salt distinguishing sub-batches of one property (fault-free vs
    /// fault-injecting configurations etc.).
    pub salt: u64,
}

pub enum BatchEnd<C: Case> {
    Clean,
    Violation(Found<C>),
    HarnessError(String),
}

pub struct BatchResult<C: Case> {
    pub agg: Agg,
    pub end: BatchEnd<C>,
    pub wall_s: f64,
    pub runs_done: u64,
}

/// A known finding: matches a violation by property, class and a predicate
/// on the scenario.
pub struct Known<C: Case> {
    pub key: String,
    pub what: String,
    pub matches: Box<dyn Fn(&C, &Violation) -> bool + Send + Sync>,
}

pub fn strategy_for<C: Case>(rng: &mut Rng, scn: &C) -> StrategySpec {
    StrategySpec::swarm(rng, scn.max_threads(), scn.est_len())
}

pub fn one_run<C: Case>(
    scn: &C,
    run_seed: u64,
    strategy: StrategySpec,
) -> (RunResult, C::Out) {
    let cfg = scn.run_config(run_seed, strategy);
    scn.execute(cfg)
}

fn sample_json<C: Case>(
    run_index: u64,
    run_seed: u64,
    scn: &C,
    strategy: &StrategySpec,
    r: &RunResult,
    violations: &[Violation],
) -> Value {
    json!({
        "run_index": run_index,
        "run_seed": format!("{run_seed:#018x}"),
        "scenario": scn.to_json(),
        "strategy": strategy.name(),
        "threads": r.threads,
        "events": r.events.len(),
        "decisions": r.decisions.len(),
        "first_decisions": r.decisions.iter().take(40).map(|d| d.chosen).collect::<Vec<_>>(),
        "faults_fired": r.faults_fired,
        "outcome": match (&r.failure, violations.is_empty()) {
            (Some(f), _) => format!("failure:{}", f.class()),
            (None, true) => "held".to_string(),
            (None, false) => "violation".to_string(),
        },
    })
}

/// Runs the seeded search for one property / one case family.
pub fn run_batch<C: Case>(cfg: &BatchCfg, known: &[Known<C>]) -> BatchResult<C> {
    let start = Instant::now();
    let next = AtomicU64::new(0);
    let stop = AtomicBool::new(false);
    let found: Mutex<Vec<Found<C>>> = Mutex::new(Vec::new());
    let harness_err: Mutex<Option<String>> = Mutex::new(None);
    let total = Mutex::new(Agg::default());
    let done = AtomicU64::new(0);
    // Debugging aid: execute a single run index of the batch.
    let only_run: Option<u64> = std::env::var("VERIF_ONLY_RUN").ok().and_then(|s| s.parse().ok());

    std::thread::scope(|scope| {
        for _ in 0..cfg.workers {
            scope.spawn(|| {
                let mut agg = Agg::default();
                loop {
                    if stop.load(Ordering::Relaxed) {
                        break;
                    }
                    let i = next.fetch_add(1, Ordering::Relaxed);
                    if i >= cfg.runs {
                        break;
                    }
                    if let Some(only) = only_run {
                        if i != only {
                            continue;
                        }
                    }
                    if i % 64 == 0 && start.elapsed() > cfg.wall {
                        break;
                    }
                    let run_seed = rng::mix(&[cfg.seed, cfg.prop.num(), cfg.salt, i]);
                    let mut rng = Rng::new(run_seed);
                    let scn = C::generate(&mut rng, cfg.prop, cfg.tier);
                    let strategy = strategy_for(&mut rng, &scn);
                    if std::env::var_os("VERIF_TRACE").is_some() {
                        eprintln!("TRACE run {i} seed {run_seed:#x} strategy {} scenario {}", strategy.name(), scn.to_json());
                    }
                    let (r, out) = one_run(&scn, run_seed, strategy.clone());
                    done.fetch_add(1, Ordering::Relaxed);

                    // Code that spins without ever reaching a scheduling point
                    // trips the wall-clock watchdog. Once is a harness matter
                    // (an overloaded machine); twice in a row on the same
                    // scenario and schedule is non-termination of the code
                    // under test.
                    if matches!(r.failure, Some(Failure::Watchdog)) {
                        let (r2, _) = one_run(&scn, run_seed, strategy.clone());
                        if matches!(r2.failure, Some(Failure::Watchdog)) {
                            found.lock().unwrap().push(Found {
                                run_index: i,
                                run_seed,
                                deviations: Vec::new(),
                                choices: r2.choices(),
                                scn,
                                strategy,
                                violations: vec![non_termination()],
                                runs_before: i,
                            });
                            stop.store(true, Ordering::Relaxed);
                            break;
                        }
                    }
                    if let Some(f) = &r.failure {
                        if f.is_harness_error() {
                            *harness_err.lock().unwrap() = Some(format!(
                                "run {i} (seed {run_seed:#x}): {f:?}; scenario {}",
                                scn.to_json()
                            ));
                            stop.store(true, Ordering::Relaxed);
                            break;
                        }
                    }

                    // Oracles call a few real conversion functions directly; a
                    // panic raised inside the code under test is a finding, a
                    // panic of the oracle itself is a harness error.
                    let _ = crate::common::take_last_panic();
                    let checked = std::panic::catch_unwind(std::panic::AssertUnwindSafe(|| {
                        scn.check(cfg.prop, &r, &out)
                    }));
                    let mut violations = match checked {
                        Ok(v) => v,
                        Err(_) => {
                            let msg = crate::common::take_last_panic().unwrap_or_default();
                            if msg.contains("/repo/") {
                                vec![Violation::new(
                                    "panic_in_code_under_test",
                                    format!("a function of the code under test called by the oracle panicked: {msg}"),
                                )]
                            } else {
                                *harness_err.lock().unwrap() = Some(format!(
                                    "oracle panicked on run {i} (seed {run_seed:#x}): {msg}; scenario {}",
                                    scn.to_json()
                                ));
                                stop.store(true, Ordering::Relaxed);
                                break;
                            }
                        }
                    };

                    // Known findings are reported, counted and otherwise
                    // ignored; anything else is a violation.
                    violations.retain(|v| {
                        if let Some(k) = known.iter().find(|k| (k.matches)(&scn, v)) {
                            *agg.known_hits.entry(k.key.clone()).or_insert(0) += 1;
                            false
                        } else {
                            true
                        }
                    });

                    // Evidence.
                    agg.evaluations += 1;
                    *agg.strategies.entry(strategy.family().to_string()).or_insert(0) += 1;
                    *agg.threads_hist.entry(r.threads).or_insert(0) += 1;
                    agg.decisions_total += r.decisions.len() as u64;
                    agg.steps_total += r.steps as u64;
                    agg.events_total += r.events.len() as u64;
                    agg.ticks_total += r.ticks as u128;
                    let freq = scn.run_config(0, StrategySpec::RunToBlock).clock.frequency.max(1);
                    agg.ps_total += r.ticks as u128 * 1_000_000_000_000u128 / freq as u128;
                    for (k, n) in &r.faults_fired {
                        *agg.faults_fired.entry(k.to_string()).or_insert(0) += n;
                    }
                    for (k, n) in &r.probes {
                        *agg.probes.entry(k.to_string()).or_insert(0) += n;
                    }
                    for p in scn.probes(cfg.prop, &r, &out) {
                        *agg.probes.entry(p.to_string()).or_insert(0) += 1;
                    }
                    if r.failure.is_some() {
                        agg.failing_runs += 1;
                    }
                    let faults: u64 = r.faults_fired.values().sum();
                    let nontrivial = (r.threads >= 2 && !r.decisions.is_empty())
                        || faults > 0
                        || scn.nontrivial_alone(&r, &out);
                    if nontrivial {
                        agg.nontrivial += 1;
                        let mut h = dsim::event::Fnv::default();
                        h.u64(scn.shape());
                        for (k, n) in &r.faults_fired {
                            h.bytes(k.as_bytes());
                            h.u64(*n);
                        }
                        h.u64(r.sync_sig);
                        h.u64(scn.outcome_key(&r, &out));
                        h.u64(r.failure.as_ref().map_or(0, |f| f.class().len() as u64));
                        agg.distinct.insert(h.finish());
                    }
                    agg.interleavings.insert(r.sync_sig ^ scn.shape().rotate_left(1));
                    if agg.samples.len() < 2 && (nontrivial || i < 2) {
                        agg.samples.push(sample_json(i, run_seed, &scn, &strategy, &r, &violations));
                    }

                    // Determinism tripwire on a 1 % sample.
                    if i % 100 == 37 && r.failure.is_none() {
                        let (r2, _) = one_run(&scn, run_seed, strategy.clone());
                        agg.recheck_runs += 1;
                        if r2.determinism_hash() != r.determinism_hash() {
                            agg.recheck_mismatches += 1;
                            *harness_err.lock().unwrap() = Some(format!(
                                "determinism tripwire: run {i} (seed {run_seed:#x}) produced two different histories; scenario {}",
                                scn.to_json()
                            ));
                            stop.store(true, Ordering::Relaxed);
                            break;
                        }
                    }

                    if !violations.is_empty() {
                        found.lock().unwrap().push(Found {
                            run_index: i,
                            run_seed,
                            deviations: r.deviations(),
                            choices: r.choices(),
                            scn,
                            strategy,
                            violations,
                            runs_before: i,
                        });
                        stop.store(true, Ordering::Relaxed);
                        break;
                    }
                }
                total.lock().unwrap().merge(agg);
            });
        }
    });

    let agg = total.into_inner().unwrap();
    let runs_done = done.load(Ordering::Relaxed);
    let wall_s = start.elapsed().as_secs_f64();
    if let Some(e) = harness_err.into_inner().unwrap() {
        return BatchResult { agg, end: BatchEnd::HarnessError(e), wall_s, runs_done };
    }
    let mut found = found.into_inner().unwrap();
    found.sort_by_key(|f| f.run_index);
    match found.into_iter().next() {
        Some(f) => BatchResult { agg, end: BatchEnd::Violation(f), wall_s, runs_done },
        None => BatchResult { agg, end: BatchEnd::Clean, wall_s, runs_done },
    }
}

pub fn non_termination() -> Violation {
    Violation::new(
        "non_termination",
        "the simulated code kept running without reaching any scheduling point until the wall-clock watchdog fired, twice in a row on the same scenario and schedule (spinning / unbounded loop)",
    )
}

// ---------------------------------------------------------------------------
// Minimisation
// ---------------------------------------------------------------------------

pub struct Minimised<C: Case> {
    pub scn: C,
    pub strategy: StrategySpec,
    pub violation: Violation,
    pub from_decisions: usize,
    pub scenario_steps: usize,
    pub replays: u64,
}

/// Every failing run leaves its simulated OS threads parked (they cannot be
/// unwound); the minimiser stops shrinking before the process runs out of
/// threads / memory mappings.
const MAX_LEAKED_THREADS: u64 = 6_000;

fn first_of_class<C: Case>(
    scn: &C,
    prop: Prop,
    seed: u64,
    strategy: &StrategySpec,
    class: &str,
) -> Option<(RunResult, Violation)> {
    if dsim::sim::leaked_threads() > MAX_LEAKED_THREADS {
        return None;
    }
    let (r, out) = one_run(scn, seed, strategy.clone());
    if r.failure.as_ref().is_some_and(|f| f.is_harness_error()) {
        return None;
    }
    let v = scn.check(prop, &r, &out).into_iter().find(|v| v.class == class)?;
    Some((r, v))
}

/// Shrinks the scenario (re-searching schedules with a small seed budget for
/// every candidate) and then the schedule (delta-debugging the deviations
/// from run-to-block), keeping the violation class fixed.
pub fn minimise<C: Case>(prop: Prop, f: &Found<C>, budget: Duration) -> Minimised<C> {
    if f.violations[0].class == "non_termination" {
        // Every replay costs a full watchdog period: reported as found.
        return Minimised {
            scn: f.scn.clone(),
            strategy: StrategySpec::Recorded { choices: f.choices.clone() },
            violation: f.violations[0].clone(),
            from_decisions: f.choices.len(),
            scenario_steps: 0,
            replays: 0,
        };
    }
    let start = Instant::now();
    let class = f.violations[0].class.clone();
    let mut replays = 0u64;
    let mut scn = f.scn.clone();
    let mut strategy = StrategySpec::Recorded { choices: f.choices.clone() };
    let mut seed = f.run_seed;
    let mut violation = f.violations[0].clone();
    let mut scenario_steps = 0usize;

    // Phase 1: scenario shrinking.
    let over = || dsim::sim::leaked_threads() > MAX_LEAKED_THREADS;
    'outer: loop {
        if start.elapsed() > budget || over() {
            break;
        }
        for cand in scn.shrink_candidates() {
            if start.elapsed() > budget || over() {
                break 'outer;
            }
            // The schedule necessarily changes with the scenario: try the
            // canonical schedule, then a few seeded ones.
            let mut tries: Vec<(u64, StrategySpec)> = vec![(seed, StrategySpec::RunToBlock)];
            let mut rng = Rng::new(seed ^ 0xC0FFEE);
            for _ in 0..48 {
                let s = rng.next_u64();
                let mut r2 = Rng::new(s);
                tries.push((s, strategy_for(&mut r2, &cand)));
            }
            for (s, st) in tries {
                replays += 1;
                if let Some((r, v)) = first_of_class(&cand, prop, s, &st, &class) {
                    scn = cand.clone();
                    seed = s;
                    strategy = StrategySpec::Recorded { choices: r.choices() };
                    violation = v;
                    scenario_steps += 1;
                    continue 'outer;
                }
            }
        }
        break;
    }

    // Phase 2: schedule shrinking — express as deviations from run-to-block
    // and delta-debug them.
    replays += 1;
    if let Some((r, v)) = first_of_class(&scn, prop, seed, &strategy, &class) {
        let mut devs = r.deviations();
        let as_dev = StrategySpec::Deviations { list: devs.clone() };
        replays += 1;
        if first_of_class(&scn, prop, seed, &as_dev, &class).is_some() {
            violation = v;
            let mut chunk = (devs.len() / 2).max(1);
            while !devs.is_empty() && start.elapsed() < budget && !over() {
                let mut progressed = false;
                let mut i = 0;
                while i < devs.len() {
                    let mut cand = devs.clone();
                    let end = (i + chunk).min(cand.len());
                    cand.drain(i..end);
                    let st = StrategySpec::Deviations { list: cand.clone() };
                    replays += 1;
                    if let Some((_, v2)) = first_of_class(&scn, prop, seed, &st, &class) {
                        devs = cand;
                        violation = v2;
                        progressed = true;
                    } else {
                        i += chunk;
                    }
                    if start.elapsed() > budget {
                        break;
                    }
                }
                if chunk == 1 && !progressed {
                    break;
                }
                chunk = (chunk / 2).max(1);
            }
            strategy = StrategySpec::Deviations { list: devs };
        }
    }

    Minimised {
        scn,
        strategy,
        violation,
        from_decisions: f.choices.len(),
        scenario_steps,
        replays,
    }
}

// ---------------------------------------------------------------------------
// Replay files
// ---------------------------------------------------------------------------

pub fn strategy_to_json(s: &StrategySpec) -> Value {
    match s {
        StrategySpec::Deviations { list } => json!({
            "default": "run_to_block",
            "deviations": list.iter().map(|&(i, t)| json!([i, t])).collect::<Vec<_>>(),
        }),
        StrategySpec::Recorded { choices } => json!({
            "default": "run_to_block",
            "recorded": choices,
        }),
        StrategySpec::RunToBlock => json!({ "default": "run_to_block", "deviations": [] }),
        other => json!({ "strategy": other.name() }),
    }
}

pub fn strategy_from_json(v: &Value) -> Option<StrategySpec> {
    if let Some(d) = v.get("deviations").and_then(|d| d.as_array()) {
        let list = d
            .iter()
            .map(|p| Some((p[0].as_u64()? as usize, p[1].as_u64()? as usize)))
            .collect::<Option<Vec<_>>>()?;
        return Some(StrategySpec::Deviations { list });
    }
    if let Some(c) = v.get("recorded").and_then(|d| d.as_array()) {
        let choices = c.iter().map(|x| x.as_u64().map(|x| x as u8)).collect::<Option<Vec<_>>>()?;
        return Some(StrategySpec::Recorded { choices });
    }
    None
}

pub fn repo_describe() -> String {
    let out = std::process::Command::new("git")
        .args(["-C", "/repo", "describe", "--always", "--dirty"])
        .output();
    match out {
        Ok(o) if o.status.success() => String::from_utf8_lossy(&o.stdout).trim().to_string(),
        _ => "unknown".into(),
    }
}

pub fn verif_root() -> PathBuf {
    std::env::var_os("VERIF_ROOT").map(PathBuf::from).unwrap_or_else(|| PathBuf::from("/verif"))
}

pub fn write_replay<C: Case>(
    prop: Prop,
    verif_seed: u64,
    f: &Found<C>,
    m: &Minimised<C>,
    seed_used: u64,
) -> PathBuf {
    let dir = verif_root().join("replays");
    let _ = std::fs::create_dir_all(&dir);
    let body = json!({
        "format": 1,
        "property": prop.id(),
        "engine": "dsim",
        "violation": { "class": m.violation.class, "message": m.violation.message },
        "scenario": m.scn.to_json(),
        "run_seed": format!("{seed_used:#018x}"),
        "decisions": strategy_to_json(&m.strategy),
        "found": {
            "verif_seed": verif_seed,
            "run_index": f.run_index,
            "run_seed": format!("{:#018x}", f.run_seed),
            "strategy": f.strategy.name(),
            "runs_before": f.runs_before,
            "original_scenario": f.scn.to_json(),
            "original_violations": f.violations.iter().map(|v| json!({"class": v.class, "message": v.message})).collect::<Vec<_>>(),
        },
        "minimised": {
            "from_decisions": m.from_decisions,
            "to_deviations": match &m.strategy { StrategySpec::Deviations { list } => list.len() as i64, _ => -1 },
            "scenario_steps": m.scenario_steps,
            "replays": m.replays,
        },
        "repo": repo_describe(),
    });
    let text = serde_json::to_string_pretty(&body).unwrap();
    let mut h = dsim::event::Fnv::default();
    h.bytes(text.as_bytes());
    let path = dir.join(format!("{}-{}-{:08x}.json", prop.id(), verif_seed, h.finish() as u32));
    std::fs::write(&path, text).expect("write replay file");
    path
}

pub struct ReplayOutcome {
    pub reproduced: bool,
    pub expected: Violation,
    pub got: Vec<Violation>,
    pub harness_error: Option<String>,
    pub hash: u64,
}

pub fn replay_case<C: Case>(prop: Prop, v: &Value) -> Result<ReplayOutcome, String> {
    let scn = C::from_json(&v["scenario"]).ok_or("cannot parse scenario")?;
    let strategy = strategy_from_json(&v["decisions"]).ok_or("cannot parse decisions")?;
    let seed = v["run_seed"]
        .as_str()
        .and_then(|s| u64::from_str_radix(s.trim_start_matches("0x"), 16).ok())
        .ok_or("cannot parse run_seed")?;
    let expected = Violation {
        class: v["violation"]["class"].as_str().unwrap_or("").to_string(),
        message: v["violation"]["message"].as_str().unwrap_or("").to_string(),
    };
    let (r, out) = one_run(&scn, seed, strategy);
    if expected.class == "non_termination" {
        let again = matches!(r.failure, Some(Failure::Watchdog));
        return Ok(ReplayOutcome {
            reproduced: again,
            expected,
            got: if again { vec![non_termination()] } else { Vec::new() },
            harness_error: None,
            hash: 0,
        });
    }
    let harness_error = match &r.failure {
        Some(f) if f.is_harness_error() => Some(format!("{f:?}")),
        _ => None,
    };
    let got = scn.check(prop, &r, &out);
    let reproduced = got.iter().any(|g| g.class == expected.class);
    Ok(ReplayOutcome { reproduced, expected, got, harness_error, hash: r.determinism_hash() })
}

// ---------------------------------------------------------------------------
// Evidence
// ---------------------------------------------------------------------------

pub struct EvidenceMeta<'a> {
    pub prop: Prop,
    pub tier: Tier,
    pub seed: u64,
    pub level: &'a str,
    pub rule: &'a str,
    pub assumptions: Vec<String>,
    pub components_real: Vec<&'a str>,
    pub components_stub: Vec<&'a str>,
    pub extra: Value,
}

pub fn write_evidence(meta: &EvidenceMeta, agg: &Agg, wall_s: f64, violations: i64) -> PathBuf {
    let dir = verif_root().join("evidence");
    let _ = std::fs::create_dir_all(&dir);
    let runs_per_hour = if wall_s > 0.0 { agg.evaluations as f64 * 3600.0 / wall_s } else { 0.0 };
    let mut coverage = json!({
        "evaluations": agg.evaluations,
        "distinct_nontrivial": agg.distinct.len(),
        "rule": meta.rule,
        "samples": agg.samples,
        "nontrivial_runs": agg.nontrivial,
        "runs_per_hour": runs_per_hour.round(),
        "seeds_per_hour": runs_per_hour.round(),
        "simulated_ticks": agg.ticks_total.to_string(),
        "simulated_seconds": agg.ps_total as f64 / 1e12,
        "decisions_total": agg.decisions_total,
        "scheduling_steps_total": agg.steps_total,
        "events_total": agg.events_total,
        "faults_fired": agg.faults_fired,
        "probes": agg.probes,
        "strategies": agg.strategies,
        "threads_per_run": agg.threads_hist.iter().map(|(k, v)| (k.to_string(), *v)).collect::<BTreeMap<_, _>>(),
        "distinct_interleavings": agg.interleavings.len(),
        "determinism_recheck": { "runs": agg.recheck_runs, "mismatches": agg.recheck_mismatches },
        "components": { "real": meta.components_real, "stub": meta.components_stub },
        "known_findings_hit": agg.known_hits,
        "runs_ending_in_failure_state": agg.failing_runs,
        "exhaustive": false,
    });
    if let (Some(c), Some(e)) = (coverage.as_object_mut(), meta.extra.as_object()) {
        for (k, v) in e {
            c.insert(k.clone(), v.clone());
        }
    }
    let body = json!({
        "property_id": meta.prop.id(),
        "tier": meta.tier.name(),
        "seed": meta.seed,
        "level": meta.level,
        "coverage": coverage,
        "assumptions": meta.assumptions,
        "wall_s": (wall_s * 1000.0).round() / 1000.0,
        "violations": violations,
    });
    let path = dir.join(format!("{}.json", meta.prop.id()));
    std::fs::write(&path, serde_json::to_string_pretty(&body).unwrap()).expect("write evidence");
    path
}

pub fn read_json(path: &Path) -> Result<Value, String> {
    let text = std::fs::read_to_string(path).map_err(|e| format!("{}: {e}", path.display()))?;
    serde_json::from_str(&text).map_err(|e| format!("{}: {e}", path.display()))
}

pub fn failure_violation(f: &Failure) -> Option<Violation> {
    match f {
        Failure::Deadlock { blocked } => Some(Violation::new(
            "deadlock",
            format!(
                "no thread can run; blocked: {}",
                blocked.iter().map(|(t, w)| format!("thread {t} in {w}")).collect::<Vec<_>>().join(", ")
            ),
        )),
        Failure::NoProgress { steps } => Some(Violation::new(
            "no_progress",
            format!("no completion within {steps} scheduling steps"),
        )),
        Failure::Abort { tid } => {
            Some(Violation::new("abort", format!("process::abort reached on sim thread {tid}")))
        }
        Failure::Invariant { message } => Some(invariant_violation(message)),
        _ => None,
    }
}

/// `[class] text` messages of in-run monitors carry their violation class.
pub fn invariant_violation(message: &str) -> Violation {
    if let Some(rest) = message.strip_prefix('[') {
        if let Some((class, text)) = rest.split_once("] ") {
            return Violation::new(class, text);
        }
    }
    Violation::new("invariant", message)
}
