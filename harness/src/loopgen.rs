//! Per-property scenario distributions for loop runs, and the `Case` impl.

use dsim::{
    event::PanicPhase, rng::Rng, ClockCfg, ClockFault, ClockFaultKind, RunConfig, RunResult,
    StrategySpec,
};
use serde_json::Value;

use crate::{
    batch::Case,
    common::{Prop, Tier, Violation},
    loopcheck,
    looprun::{
        maybe_os_timer, phase, pick_clock, pick_cost, pick_input_counters, pick_shapes, Cost, Entry, LoopOut,
        LoopScn, PanicPlan, Shape,
    },
};

fn ns(n: u128) -> (u64, u32) {
    ((n / 1_000_000_000) as u64, (n % 1_000_000_000) as u32)
}

fn ticks_to_ns(ticks: u128, f: u64) -> u128 {
    ticks * 1_000_000_000 / f as u128
}

fn gen_alloc_script(rng: &mut Rng, scn: &mut LoopScn, always: bool) {
    if always || rng.chance(1, 2) {
        scn.alloc_seed = rng.next_u64();
        scn.alloc_max_ops = rng.range(1, 3) as u8;
        scn.alloc_phases = if rng.chance(2, 3) { phase::ALL } else { rng.range(1, 31) as u8 };
        scn.alloc_size_mode = *rng.pick(&[0u8, 0, 1, 2]);
    }
}

fn gen_panic(rng: &mut Rng, scn: &mut LoopScn, partial_ok: bool) {
    let t = scn.eff_threads();
    let phase = if scn.entry.has_inputs() && rng.chance(1, 3) {
        PanicPhase::Gen
    } else {
        PanicPhase::Benched
    };
    let per_thread_calls = scn.sample_size.unwrap_or(2).max(1) as u64
        * scn.sample_count.unwrap_or(2).max(1).div_ceil(t as u32) as u64;
    let index = rng.below(per_thread_calls.clamp(1, 12)) as u32;
    let tids: Vec<usize> = if t == 1 {
        vec![0]
    } else if partial_ok && rng.chance(3, 4) {
        // A strict subset.
        let mut v: Vec<usize> = (0..t).filter(|_| rng.chance(1, 2)).collect();
        if v.is_empty() {
            v.push(rng.usize_below(t));
        }
        if v.len() == t {
            v.remove(rng.usize_below(t));
        }
        v
    } else {
        (0..t).collect()
    };
    scn.panic = Some(PanicPlan { phase, tids, index });
}

fn gen_c01(rng: &mut Rng, tier: Tier, partial_panics: bool) -> LoopScn {
    let mut s = LoopScn::default();
    pick_shapes(rng, &mut s);
    let max_t = if tier == Tier::Thorough { 8 } else { 4 };
    s.threads = rng.range(1, max_t) as usize;
    s.test_mode = rng.chance(1, 4);
    let tuned = rng.chance(1, 10);
    if tuned {
        s.sample_size = None;
        s.sample_count = Some(rng.range(0, 3) as u32);
        s.precision_override = Some(1_000);
        s.cost_call = Cost::Const(rng.range(8, 40));
    } else {
        s.sample_size = Some(if rng.chance(1, 15) { 0 } else { rng.range(1, 6) as u32 });
        s.sample_count = if rng.chance(1, 30) {
            s.sample_size = Some(rng.range(0, 2) as u32);
            None
        } else if rng.chance(1, 15) {
            Some(0)
        } else {
            Some(rng.range(1, 5) as u32)
        };
        s.cost_call = pick_cost(rng, 1, 50);
    }
    s.cost_gen = pick_cost(rng, 0, 20);
    s.cost_drop = pick_cost(rng, 0, 20);
    pick_input_counters(rng, &mut s);
    if rng.chance(1, 4) {
        gen_alloc_script(rng, &mut s, true);
    }
    if rng.chance(3, 10) {
        gen_panic(rng, &mut s, partial_panics);
    }
    if s.eff_threads() > 1 && rng.chance(1, 5) {
        s.spurious_parks.push((0, rng.range(0, 3) as u32));
    }
    s
}

fn gen_c02(rng: &mut Rng, tier: Tier) -> LoopScn {
    let mut s = LoopScn::default();
    pick_shapes(rng, &mut s);
    let max_t = if tier == Tier::Thorough { 6 } else { 4 };
    s.threads = rng.range(1, max_t) as usize;
    s.test_mode = rng.chance(1, 8);
    if rng.chance(1, 10) {
        s.sample_size = None;
        s.sample_count = Some(rng.range(1, 3) as u32);
        s.precision_override = Some(1_000);
        s.cost_call = Cost::Const(rng.range(8, 40));
    } else {
        s.sample_size = Some(rng.range(1, 5) as u32);
        s.sample_count = Some(rng.range(1, 6) as u32);
        s.cost_call = pick_cost(rng, 1, 50);
    }
    s.cost_gen = pick_cost(rng, 0, 20);
    s.cost_drop = pick_cost(rng, 0, 20);
    pick_input_counters(rng, &mut s);
    gen_alloc_script(rng, &mut s, true);
    if rng.chance(1, 4) {
        s.alloc_phases = phase::ALL;
        s.alloc_max_ops = 3;
    }
    s.clock = pick_clock(rng, false);
    maybe_os_timer(rng, &mut s);
    s
}

/// Large counts: sample counts and sample sizes around and beyond 2^16 (a
/// few hundred thousand events per run, so only a small share of the runs).
fn gen_c03_large(rng: &mut Rng) -> LoopScn {
    let mut s = LoopScn::default();
    s.entry = Entry::Bench;
    s.threads = rng.range(1, 3) as usize;
    if rng.chance(2, 3) {
        s.sample_count = Some(*rng.pick(&[65_535u32, 65_536, 65_537, 65_541, 70_001, 100_003, 131_073]));
        s.sample_size = Some(1);
    } else {
        s.sample_count = Some(rng.range(1, 3) as u32);
        s.sample_size = Some(*rng.pick(&[65_535u32, 65_536, 65_537, 70_001]));
        s.threads = rng.range(1, 2) as usize;
    }
    s.cost_call = Cost::Const(3);
    s
}

fn gen_c03(rng: &mut Rng, tier: Tier) -> LoopScn {
    if rng.chance(1, 400) {
        return gen_c03_large(rng);
    }
    let mut s = LoopScn::default();
    pick_shapes(rng, &mut s);
    let thorough = tier == Tier::Thorough;
    s.threads = rng.range(1, if thorough { 9 } else { 6 }) as usize;
    s.test_mode = rng.chance(1, 4);
    let size = *rng.pick(&[0u32, 1, 1, 2, 3, 4, 5, 17]);
    s.sample_size = Some(size);
    s.sample_count = match rng.below(20) {
        0 => None,
        1 => Some(99),
        2 => Some(100),
        3 => Some(101),
        4 if thorough => Some(rng.range(200, 2000) as u32),
        _ => Some(rng.range(0, 12) as u32),
    };
    // Keep the number of calls per run bounded.
    if s.sample_count.unwrap_or(100) as u64 * size as u64 > 2500 {
        s.sample_size = Some(1);
    }
    match rng.below(12) {
        0 => {
            // A zero ceiling wins whatever the floor says.
            s.max_time = Some((0, 0));
            if rng.chance(1, 2) {
                s.min_time = Some(*rng.pick(&[(0u64, 1u32), (0, 1_000_000), (3, 0), (u64::MAX, 999_999_999)]));
            }
        }
        1 => s.max_time = Some((u64::MAX, 999_999_999)),
        2 => s.min_time = Some((0, 0)),
        3 => {
            s.min_time = Some((0, 0));
            s.max_time = Some((u64::MAX / 2, 0));
        }
        _ => {}
    }
    s.skip_ext = *rng.pick(&[None, None, Some(false), Some(true)]);
    s.cost_call = pick_cost(rng, 1, 20);
    s.cost_gen = pick_cost(rng, 0, 10);
    pick_input_counters(rng, &mut s);
    maybe_os_timer(rng, &mut s);
    // "No time limit reached": whatever the clock does, the counts are fixed.
    // One run in three meets a clock anomaly — readings that stall (samples
    // of zero duration), jump forwards or jump backwards (an end reading
    // below the start reading) — or calls that cost no virtual time at all.
    if rng.chance(1, 3) {
        if rng.chance(1, 4) {
            s.cost_call = Cost::Zero;
        }
        let ticks = est_round_ticks(&s);
        gen_clock_faults(rng, &mut s, ticks);
    }
    s
}

/// Lower estimate of the virtual time one round takes (used to choose time
/// limits that need a bounded number of rounds). Only costs that are really
/// spent count: the generator cost needs an entry point with inputs, the
/// drop cost a value whose destructor divan runs.
fn est_round_ticks(s: &LoopScn) -> u128 {
    let size = s.sample_size.unwrap_or(1).max(1) as u128;
    let c = |c: &Cost| match *c {
        Cost::Noisy { base, .. } => base as u128,
        ref other => other.eval(0, 0) as u128,
    };
    let gen = if s.entry.has_inputs() { c(&s.cost_gen) } else { 0 };
    let drops = (s.oshape.has_drop() as u128)
        + ((s.entry.by_ref() && s.eff_ishape().has_drop()) as u128);
    size * (gen + c(&s.cost_call) + drops * c(&s.cost_drop)) + 4 * s.clock.read_cost as u128
}

fn gen_clock_faults(rng: &mut Rng, s: &mut LoopScn, round_ticks: u128) {
    let n = *rng.pick(&[1u32, 1, 2]);
    for _ in 0..n {
        let at_read = rng.range(0, 12) as u32;
        let kind = match rng.below(3) {
            0 => ClockFaultKind::Stall { reads: rng.range(1, 6) as u32 },
            1 => ClockFaultKind::JumpFwd {
                ticks: if rng.chance(1, 4) { 1 << rng.range(30, 40) } else { rng.range(1, (round_ticks as u64 * 4).max(2)) },
            },
            _ => ClockFaultKind::JumpBack { ticks: rng.range(1, (round_ticks as u64 * 6).max(2)) },
        };
        s.clock_faults.push(ClockFault { at_read, kind });
    }
}

fn gen_c04(rng: &mut Rng, _tier: Tier, faults: bool) -> LoopScn {
    let mut s = LoopScn::default();
    pick_shapes(rng, &mut s);
    s.threads = rng.range(1, 3) as usize;
    let quantum = rng.chance(1, 4);
    s.clock = pick_clock(rng, quantum);
    maybe_os_timer(rng, &mut s);
    // Costs in ticks such that a round is comfortably above 1 ns.
    let unit = (s.clock.frequency / 1_000_000_000).max(1) * 10;
    s.cost_call = pick_cost(rng, unit, unit * 40);
    s.cost_gen = pick_cost(rng, 0, unit * 20);
    s.cost_drop = pick_cost(rng, 0, unit * 20);
    if rng.chance(1, 6) {
        s.sample_size = None;
        s.precision_override = Some(*rng.pick(&[1_000u128, 10_000, 100_000]));
        // Reach the threshold within a few doublings.
        let prec_ticks = (s.precision_override.unwrap() * s.clock.frequency as u128 / 1_000_000_000_000).max(1) as u64;
        s.cost_call = Cost::Const((prec_ticks * 100 / rng.range(1, 16)).max(unit));
    } else {
        s.sample_size = Some(rng.range(0, 4) as u32);
    }
    s.sample_count = *rng.pick(&[None, Some(0), Some(1), Some(2), Some(3), Some(5), Some(8)]);
    if s.sample_count.is_none() {
        // The default of 100 samples: keep rounds cheap.
        s.sample_size = s.sample_size.map(|x| x.min(1));
    }
    s.skip_ext = *rng.pick(&[None, Some(false), Some(true), Some(true)]);
    // What one round adds to the elapsed time (lower estimate): the whole
    // round, or with skip_ext_time only the timed section — which on a
    // quantised clock may read as zero and then counts as 1 ns.
    let e_ns = if s.skip_ext == Some(true) {
        let timed = s.sample_size.unwrap_or(1).max(1) as u128
            * match s.cost_call {
                Cost::Noisy { base, .. } => base as u128,
                ref c => c.eval(0, 0) as u128,
            };
        let timed = if timed < 2 * s.clock.step as u128 { 0 } else { timed - s.clock.step as u128 };
        ticks_to_ns(timed, s.clock.frequency).max(1)
    } else {
        ticks_to_ns(est_round_ticks(&s), s.clock.frequency).max(1)
    };
    let mult = |rng: &mut Rng, ks: &[u128]| {
        let k = *rng.pick(ks);
        ns(e_ns * k / 2 + rng.below(3) as u128)
    };
    s.max_time = match rng.below(10) {
        0 | 1 => None,
        2 => Some((0, 0)),
        3 => Some((0, 1)),
        4 => Some((u64::MAX, 999_999_999)),
        _ => Some(mult(rng, &[1, 2, 3, 4, 6, 10, 20])),
    };
    s.min_time = match rng.below(10) {
        0..=2 => None,
        3 => Some((0, 0)),
        4 => Some((0, 1)),
        _ => Some(mult(rng, &[1, 2, 4, 8, 16, 30])),
    };
    // (Both limits are at most 30 / 20 estimated rounds by construction.)
    if faults {
        let rt = est_round_ticks(&s);
        gen_clock_faults(rng, &mut s, rt);
        if s.eff_threads() > 1 && rng.chance(1, 2) {
            s.clock.skew = (0..s.eff_threads()).map(|_| rng.range(0, 2000) as i64 - 1000).collect();
            // Keep skewed readings non-negative.
            s.clock.start = s.clock.start.max(10_000);
        }
        // A fault may not push the loop into thousands of rounds.
        if s.sample_size == Some(0) {
            s.sample_size = Some(1);
        }
    }
    pick_overhead_measurement(rng, &mut s);
    s
}

/// One run in four is "the first benchmark of the process": the one-off
/// measurement of benchmarking overheads takes time of the order of the
/// rounds and limits of the scenario (it is not benchmarking time).
fn pick_overhead_measurement(rng: &mut Rng, s: &mut LoopScn) {
    if rng.chance(1, 4) {
        let rt = est_round_ticks(s).max(1);
        let k = *rng.pick(&[1u64, 2, 6, 20, 80]);
        s.overhead_measure_ticks = (rt / 2).saturating_mul(k as u128).saturating_add(rng.below(3) as u128).min(1 << 40) as u64;
    }
}

fn gen_c05(rng: &mut Rng, tier: Tier, faults: bool) -> LoopScn {
    let mut s = LoopScn::default();
    pick_shapes(rng, &mut s);
    let thorough = tier == Tier::Thorough;
    s.threads = rng.range(1, 4) as usize;
    let quantum = rng.chance(1, 4);
    s.clock = pick_clock(rng, quantum);
    maybe_os_timer(rng, &mut s);
    let unit = (s.clock.frequency / 1_000_000_000).max(1);
    s.sample_size = Some(rng.range(0, 5) as u32);
    s.sample_count = Some(rng.range(0, if thorough { 16 } else { 9 }) as u32);
    if rng.chance(1, 10) {
        s.sample_size = None;
        s.precision_override = Some(*rng.pick(&[1u128, 1_000, 50_000]));
        let prec_ticks = (s.precision_override.unwrap() * s.clock.frequency as u128 / 1_000_000_000_000).max(1) as u64;
        s.cost_call = Cost::Const((prec_ticks * 100 / rng.range(1, 16)).max(1));
        s.sample_count = Some(rng.range(0, 6) as u32);
    } else {
        // Distinct durations in most runs, deliberate ties and zeros in some.
        s.cost_call = match rng.below(10) {
            0 => Cost::Zero,
            1 | 2 => Cost::Const(rng.range(1, unit * 50)),
            3 | 4 => Cost::Grow { base: rng.range(1, unit * 20), inc: rng.range(1, unit * 5) },
            _ => Cost::Noisy { base: rng.range(0, unit * 20), spread: rng.range(2, unit * 200), seed: rng.next_u64() },
        };
    }
    s.cost_gen = pick_cost(rng, 0, unit * 10);
    s.cost_drop = pick_cost(rng, 0, unit * 10);
    pick_input_counters(rng, &mut s);
    for k in 0..4 {
        if rng.chance(1, 5) {
            s.const_counters[k] = Some(if rng.chance(1, 4) { u64::MAX - rng.below(3) } else { rng.below(1 << 20) });
        }
        if rng.chance(1, 8) && !s.input_counters[k] {
            s.bencher_counters[k] = Some(rng.below(1 << 30));
        }
    }
    gen_alloc_script(rng, &mut s, false);
    // Buggify: non-zero overhead constants in a subset of runs.
    if rng.chance(1, 5) {
        s.overheads = [
            rng.below(3_000) as u128,
            rng.below(5_000) as u128,
            rng.below(5_000) as u128,
            rng.below(5_000) as u128,
        ];
    }
    match rng.below(12) {
        0 => s.max_time = Some((0, 0)),
        1 => {
            let e_ns = ticks_to_ns(est_round_ticks(&s), s.clock.frequency).max(1);
            s.max_time = Some(ns(e_ns * rng.range(1, 4) as u128));
        }
        _ => {}
    }
    s.skip_ext = *rng.pick(&[None, None, Some(true)]);
    if faults {
        // > 2^64 ps durations and zero durations through clock faults.
        let n = rng.range(1, 2);
        for _ in 0..n {
            let at_read = rng.range(0, 16) as u32;
            let kind = if rng.chance(2, 3) {
                // Up to far beyond 2^64 ps.
                ClockFaultKind::JumpFwd { ticks: 1 << rng.range(34, 58) }
            } else {
                ClockFaultKind::Stall { reads: rng.range(2, 8) as u32 }
            };
            s.clock_faults.push(ClockFault { at_read, kind });
        }
    }
    s
}

fn gen_c08(rng: &mut Rng, tier: Tier, with_panics: bool) -> LoopScn {
    let mut s = LoopScn::default();
    // The parallel entry points only.
    s.entry = *rng.pick(&[Entry::Bench, Entry::BenchValues, Entry::BenchRefs]);
    s.ishape = *rng.pick(&Shape::ALL);
    s.oshape = *rng.pick(&Shape::ALL);
    let max_t = if tier == Tier::Thorough { 8 } else { 4 };
    s.threads = rng.range(2, max_t) as usize;
    s.sample_size = Some(rng.range(1, 3) as u32);
    let rounds = rng.range(1, 3) as u32;
    s.sample_count = Some(rounds * s.threads as u32 - rng.below(s.threads as u64) as u32);
    s.test_mode = rng.chance(1, 8);
    s.cost_call = pick_cost(rng, 1, 30);
    s.cost_gen = pick_cost(rng, 0, 30);
    s.cost_drop = pick_cost(rng, 0, 30);
    pick_input_counters(rng, &mut s);
    gen_alloc_script(rng, &mut s, true);
    if with_panics {
        gen_panic(rng, &mut s, true);
        // The input counters run inside the generation phase: a panic there
        // is a panic of input generation.
        if s.entry.has_inputs() && s.input_counters.iter().any(|&b| b) && rng.chance(1, 5) {
            if let Some(p) = &mut s.panic {
                p.phase = PanicPhase::Counter;
            }
        }
        // A destructor that panics in the drop phase of a sample. (The
        // property's panic clause names the benchmarked function and the
        // generator; the guard that keeps the other threads from hanging is
        // the same for every point of a round, and the unchanged tree ends
        // such a run with a panic on the caller too.)
        if rng.chance(1, 6) {
            let phase = if s.oshape.has_drop() && !(s.eff_ishape() == Shape::Z && s.oshape == Shape::Z) {
                Some(PanicPhase::DropOutput)
            } else if s.entry.by_ref() && s.eff_ishape().has_drop() {
                Some(PanicPhase::DropInput)
            } else {
                None
            };
            if let (Some(ph), Some(p)) = (phase, &mut s.panic) {
                p.phase = ph;
                p.index = rng.below(6) as u32;
            }
        }
        // Sometimes a second site on other threads, at its own phase / call.
        if rng.chance(3, 10) {
            let first = s.panic.clone();
            gen_panic(rng, &mut s, true);
            let mut second = s.panic.take();
            s.panic = first;
            if let (Some(a), Some(b)) = (&s.panic, &mut second) {
                b.tids.retain(|t| !a.tids.contains(t));
                if b.tids.is_empty() {
                    second = None;
                }
            }
            s.panic2 = second;
        }
    }
    if rng.chance(1, 5) {
        s.spurious_parks.push((0, rng.range(0, 3) as u32));
    }
    s
}

fn gen_c11(rng: &mut Rng, _tier: Tier, mode: u64) -> LoopScn {
    let mut s = LoopScn::default();
    pick_shapes(rng, &mut s);
    s.threads = rng.range(1, 3) as usize;
    // Boundary-biased frequencies and start values.
    s.clock = ClockCfg {
        frequency: *rng.pick(&[
            1u64, 2, 3, 1_000, 999_983, 1_000_000, 24_000_000, 1_000_000_000, 2_500_000_000,
            3_000_000_019, 10_000_000_000, 1 << 32, (1 << 32) + 1, 1 << 63, u64::MAX,
        ]),
        step: 1,
        start: *rng.pick(&[0u64, 1, (1 << 32) - 3, 1 << 32, (1 << 63) - 2, 1 << 63, u64::MAX - 1_000_000, u64::MAX - 50]),
        read_cost: rng.range(1, 20),
        skew: Vec::new(),
    };
    // The OS timer path: Instant differences -> Duration -> picoseconds.
    if mode != 2 {
        maybe_os_timer(rng, &mut s);
    }
    s.sample_size = Some(rng.range(1, 3) as u32);
    s.sample_count = Some(rng.range(1, 5) as u32);
    s.cost_call = pick_cost(rng, 0, 1_000_000);
    s.cost_gen = pick_cost(rng, 0, 1000);
    s.cost_drop = pick_cost(rng, 0, 1000);
    match mode {
        // Plain + forward jumps up to 2^63 ticks.
        0 => {
            if rng.chance(1, 2) {
                s.clock_faults.push(ClockFault {
                    at_read: rng.range(0, 10) as u32,
                    kind: ClockFaultKind::JumpFwd { ticks: 1 << rng.range(1, 62) },
                });
            }
            // A counter that wraps reads "zero elapsed" from then on (b < a),
            // so a time floor could never be reached: only combine min_time
            // with start values far from the wrap (liveness precondition).
            // Likewise a time floor is only reachable in a bounded number of
            // rounds when a round is not far below the floor's resolution.
            let e_ns = ticks_to_ns(est_round_ticks(&s), s.clock.frequency);
            if s.clock.start <= 1 << 63 && s.clock.frequency >= 1_000 && e_ns >= 1 {
                s.min_time = Some(ns(rng.below(20 * e_ns as u64 + 2) as u128));
            } else {
                // Still exercised for the Duration conversion.
                s.min_time = Some((0, 0));
            }
            s.max_time = *rng.pick(&[None, Some((u64::MAX, 999_999_999)), Some((1 << 40, 17))]);
        }
        // Skew: b < a.
        1 => {
            s.threads = rng.range(1, 3) as usize;
            s.clock.start = s.clock.start.clamp(1 << 20, u64::MAX - (1 << 21));
            s.clock_faults.push(ClockFault {
                at_read: rng.range(0, 10) as u32,
                kind: ClockFaultKind::JumpBack { ticks: rng.range(1, 100_000) },
            });
            if s.eff_threads() > 1 {
                s.clock.skew = (0..s.eff_threads()).map(|_| rng.range(0, 200_000) as i64 - 100_000).collect();
            }
        }
        // Precision clause: tuned, uniform-step clock, read_cost <= step.
        _ => {
            s.clock.frequency = *rng.pick(&[1_000_000u64, 24_000_000, 1_000_000_000, 2_500_000_000, 3_000_000_019, 10_000_000_000]);
            s.clock.step = *rng.pick(&[1u64, 2, 3, 41, 100, 1000, 4096]);
            s.clock.start = *rng.pick(&[0u64, 7, 1 << 32, 1 << 63]);
            s.clock.read_cost = crate::looprun::unaliased_read_cost(s.clock.step, rng.range((s.clock.step / 3).max(1), s.clock.step));
            // Coarse clocks: hundreds of readings per step, so that most
            // pairs of readings see no tick at all.
            if rng.chance(1, 4) {
                s.clock.step = *rng.pick(&[601u64, 1000, 1001, 4096]);
                s.clock.read_cost = crate::looprun::unaliased_read_cost(s.clock.step, rng.range(1, 3));
            }
            maybe_os_timer(rng, &mut s);
            s.sample_size = None;
            s.sample_count = Some(rng.range(1, 2) as u32);
            // A call far above 100x the precision: tuning ends immediately.
            s.cost_call = Cost::Const(s.clock.step * 150 + rng.range(0, 1000));
        }
    }
    s
}

fn gen_c19(rng: &mut Rng, tier: Tier) -> LoopScn {
    let mut s = LoopScn::default();
    pick_shapes(rng, &mut s);
    s.threads = rng.range(1, 3) as usize;
    s.sample_size = None;
    s.sample_count = *rng.pick(&[Some(1), Some(1), Some(2), Some(3), Some(4), Some(6), Some(0)]);
    let measured = rng.chance(1, 3);
    if measured {
        s.clock.frequency = *rng.pick(&[1_000_000u64, 24_000_000, 1_000_000_000, 3_000_000_000]);
        s.clock.step = *rng.pick(&[1u64, 41, 100, 1000]);
        s.clock.read_cost = crate::looprun::unaliased_read_cost(s.clock.step, rng.range((s.clock.step / 3).max(1), s.clock.step));
    } else {
        s.clock = pick_clock(rng, false);
        s.precision_override = Some(*rng.pick(&[1u128, 999, 1_000, 41_000, 1_000_000, 1_000_000_000]));
    }
    maybe_os_timer(rng, &mut s);
    let prec_ps: u128 = s.precision_override.unwrap_or(s.clock.step as u128 * 1_000_000_000_000 / s.clock.frequency as u128).max(1);
    let prec_ticks = (prec_ps * s.clock.frequency as u128 / 1_000_000_000_000).max(1) as u64;
    // Per-iteration cost from far below to far above the precision; the
    // final sample size stays <= max_final.
    let max_final: u64 = if tier == Tier::Thorough { 1024 } else { 256 };
    let threshold_ticks = prec_ticks.saturating_mul(101);
    let min_cost = (threshold_ticks / max_final).max(1);
    let base = match rng.below(4) {
        0 => min_cost,
        1 => rng.range(min_cost, min_cost.saturating_mul(8).max(min_cost + 1)),
        2 => rng.range(min_cost, threshold_ticks.max(min_cost + 1)),
        _ => threshold_ticks.saturating_mul(rng.range(1, 5)),
    };
    s.cost_call = match rng.below(3) {
        0 => Cost::Const(base),
        1 => Cost::Grow { base, inc: rng.range(0, (base / 8).max(1)) },
        _ => Cost::Noisy { base, spread: (base / 2).max(2), seed: rng.next_u64() },
    };
    s.cost_gen = pick_cost(rng, 0, base.min(1000));
    s.cost_drop = pick_cost(rng, 0, base.min(1000));
    pick_input_counters(rng, &mut s);
    gen_alloc_script(rng, &mut s, false);
    s.skip_ext = *rng.pick(&[None, Some(true)]);
    // max_time cutting tuning after 0..k rounds.
    if rng.chance(1, 3) {
        let per_call_ns = ticks_to_ns(base as u128, s.clock.frequency).max(1);
        let k = rng.range(0, 7);
        s.max_time = Some(ns(per_call_ns * ((1u128 << k) - 1) + rng.below(2) as u128));
    }
    // With large final sizes keep the number of collected rounds small.
    if threshold_ticks / base.max(1) > 64 {
        s.sample_count = s.sample_count.map(|n| n.min(2));
    }
    if s.max_time.is_some() {
        pick_overhead_measurement(rng, &mut s);
    }
    s
}

impl Case for LoopScn {
    type Out = LoopOut;

    fn generate(rng: &mut Rng, prop: Prop, tier: Tier) -> Self {
        // The variant is a deterministic function of the run's PRNG stream so
        // that one seed still decides everything.
        let faults = rng.chance(1, 3);
        let mut s = match prop {
            Prop::C01 => gen_c01(rng, tier, true),
            Prop::C02 => gen_c02(rng, tier),
            Prop::C03 => gen_c03(rng, tier),
            Prop::C04 => gen_c04(rng, tier, faults),
            Prop::C05 => gen_c05(rng, tier, faults),
            Prop::C08 => {
                let with_panics = rng.chance(35, 100);
                gen_c08(rng, tier, with_panics)
            }
            Prop::C11 => {
                let mode = rng.below(3);
                gen_c11(rng, tier, mode)
            }
            Prop::C19 => gen_c19(rng, tier),
            _ => LoopScn::default(),
        };
        // A quarter of the runs of the schedule-sensitive families follow an
        // earlier benchmark on the same thread pool (one pool reused by
        // consecutive benchmarks with different thread counts, as in a real
        // run).
        if matches!(prop, Prop::C01 | Prop::C02 | Prop::C03 | Prop::C08) && rng.chance(1, 4) {
            s.prelude_threads = rng.range(1, 5) as usize;
        }
        s
    }

    fn to_json(&self) -> Value {
        LoopScn::to_json(self)
    }
    fn from_json(v: &Value) -> Option<Self> {
        LoopScn::from_json(v)
    }
    fn shape(&self) -> u64 {
        LoopScn::shape(self)
    }
    fn est_len(&self) -> u32 {
        let t = self.eff_threads() as u32;
        let s = self.sample_size.unwrap_or(8).max(1);
        let n = self.sample_count.unwrap_or(100).max(1);
        (n.div_ceil(t) * t * (s * 4 + 12)).clamp(16, 5000)
    }
    fn max_threads(&self) -> usize {
        self.eff_threads().max(self.prelude_threads)
    }
    fn run_config(&self, seed: u64, strategy: StrategySpec) -> RunConfig {
        LoopScn::run_config(self, seed, strategy, std::sync::Arc::new(crate::looprun::LoopCtx::new(self.clone())))
    }
    fn execute(&self, cfg: RunConfig) -> (RunResult, LoopOut) {
        LoopScn::execute(self, cfg.seed, cfg.strategy)
    }
    fn check(&self, prop: Prop, r: &RunResult, out: &LoopOut) -> Vec<Violation> {
        // Time-limited families: exhausting the step budget is judged by the
        // rule itself (see `judge_step_budget`).
        if matches!(r.failure, Some(dsim::Failure::NoProgress { .. }))
            && matches!(prop, Prop::C04 | Prop::C05 | Prop::C11 | Prop::C19)
            && (self.min_time.is_some() || self.max_time.is_some() || self.sample_size.is_none())
        {
            return loopcheck::judge_step_budget(self, r);
        }
        match prop {
            Prop::C01 => loopcheck::check_c01(self, r, out),
            Prop::C02 => loopcheck::check_c02(self, r, out),
            Prop::C03 => loopcheck::check_c03(self, r, out),
            Prop::C04 => loopcheck::check_c04(self, r, out),
            Prop::C05 => loopcheck::check_c05(self, r, out),
            Prop::C08 => loopcheck::check_c08(self, r, out),
            Prop::C11 => loopcheck::check_c11(self, r, out),
            Prop::C19 => loopcheck::check_c19(self, r, out),
            _ => Vec::new(),
        }
    }
    fn probes(&self, _prop: Prop, r: &RunResult, out: &LoopOut) -> Vec<&'static str> {
        let mut h = Vec::new();
        let n = out.durations.len();
        if n == 0 && out.did_run {
            h.push("zero_samples_recorded");
        }
        if n == 1 {
            h.push("singleton_sample");
        }
        if n >= 2 {
            let mut d = out.durations.clone();
            d.sort_unstable();
            if d.windows(2).any(|w| w[0] == w[1]) {
                h.push("tied_durations");
            }
            if n % 2 == 0 {
                h.push("even_sample_count");
            } else {
                h.push("odd_sample_count");
            }
        }
        if out.durations.iter().any(|&d| d == 0) {
            h.push("zero_duration_sample");
        }
        if out.durations.iter().any(|&d| d > u64::MAX as u128) {
            h.push("duration_above_2^64_ps");
        }
        if self.sample_size.is_none() && n > 0 {
            h.push("tuned_run_collected");
            if out.sample_size > 1 {
                h.push("tuning_doubled_at_least_once");
            }
        }
        if self.sample_size.is_none() && n == 0 && out.did_run {
            h.push("tuning_cut_short_or_empty");
        }
        if out.caller_panic.is_some() {
            h.push("caller_panicked");
        }
        if self.sample_count.map_or(false, |c| c as usize % self.eff_threads() != 0) {
            h.push("sample_count_not_multiple_of_threads");
        }
        if self.sample_count.map_or(false, |c| c > 65_536) {
            h.push("sample_count_above_65536");
        }
        if self.sample_size.map_or(false, |c| c > 65_536) {
            h.push("sample_size_above_65536");
        }
        if self.min_time.is_some() && self.max_time.is_some() && self.min_time > self.max_time {
            h.push("min_time_above_max_time");
        }
        if out.allocs.iter().any(|a| a.is_some()) {
            h.push("sample_with_allocations");
        }
        let reads: Vec<u64> = r.events.iter().filter_map(crate::loopparse::raw_of).collect();
        if reads.windows(2).any(|w| w[1] < w[0]) {
            h.push("later_reading_smaller_than_earlier");
        }
        if r.precision_reads > 0 {
            h.push("precision_measured_on_virtual_clock");
        }
        if matches!(r.failure, Some(dsim::Failure::NoProgress { .. })) {
            h.push("step_budget_exhausted");
        }
        if self.os_timer {
            h.push("os_timer_on_the_virtual_clock");
        }
        if self.prelude_threads > 0 {
            h.push("followed_an_earlier_benchmark_on_the_same_pool");
            if self.prelude_threads > self.eff_threads() {
                h.push("pool_larger_than_this_benchmark_needs");
            }
        }
        h
    }
    fn outcome_key(&self, _r: &RunResult, out: &LoopOut) -> u64 {
        // Multiset shape of the durations: count, ties, zero/overflow flags.
        let mut d = out.durations.clone();
        d.sort_unstable();
        let ties = d.windows(2).filter(|w| w[0] == w[1]).count() as u64;
        let zero = d.iter().any(|&x| x == 0) as u64;
        let big = d.iter().any(|&x| x > u64::MAX as u128) as u64;
        let mut h = dsim::event::Fnv::default();
        h.u64(d.len() as u64);
        h.u64(ties);
        h.u64(zero | big << 1 | (out.caller_panic.is_some() as u64) << 2);
        h.u64(out.sample_size as u64);
        h.finish()
    }
    fn nontrivial_alone(&self, _r: &RunResult, out: &LoopOut) -> bool {
        out.durations.len() >= 2
    }
    fn shrink_candidates(&self) -> Vec<Self> {
        let mut c: Vec<LoopScn> = Vec::new();
        let mut push = |f: &dyn Fn(&mut LoopScn) -> bool| {
            let mut s = self.clone();
            if f(&mut s) && s != *self {
                c.push(s);
            }
        };
        push(&|s| {
            if s.threads > 1 {
                s.threads -= 1;
                let t = s.threads;
                if let Some(p) = &mut s.panic {
                    p.tids.retain(|&x| x < t);
                    if p.tids.is_empty() {
                        return false;
                    }
                }
                if let Some(p) = &mut s.panic2 {
                    p.tids.retain(|&x| x < t);
                    if p.tids.is_empty() {
                        s.panic2 = None;
                    }
                }
                s.clock.skew.truncate(t);
                true
            } else {
                false
            }
        });
        push(&|s| match s.sample_count {
            Some(n) if n > 0 => {
                s.sample_count = Some(n - 1);
                true
            }
            None => {
                s.sample_count = Some(3);
                true
            }
            _ => false,
        });
        push(&|s| match s.sample_size {
            Some(n) if n > 1 => {
                s.sample_size = Some(n - 1);
                true
            }
            _ => false,
        });
        push(&|s| std::mem::take(&mut s.spurious_parks).len() > 0);
        push(&|s| std::mem::take(&mut s.prelude_threads) > 0);
        push(&|s| s.panic2.take().is_some());
        push(&|s| {
            if s.clock_faults.len() > 0 {
                s.clock_faults.pop();
                true
            } else {
                false
            }
        });
        push(&|s| {
            let had = s.alloc_max_ops > 0;
            s.alloc_max_ops = 0;
            s.alloc_phases = 0;
            had
        });
        push(&|s| {
            let had = s.input_counters != [false; 4];
            s.input_counters = [false; 4];
            had
        });
        push(&|s| {
            let had = s.const_counters != [None; 4] || s.bencher_counters != [None; 4];
            s.const_counters = [None; 4];
            s.bencher_counters = [None; 4];
            had
        });
        push(&|s| {
            let had = s.overheads != [0; 4];
            s.overheads = [0; 4];
            had
        });
        push(&|s| {
            let had = !s.clock.skew.is_empty();
            s.clock.skew.clear();
            had
        });
        push(&|s| {
            if let Some(p) = &mut s.panic {
                if p.tids.len() > 1 {
                    p.tids.pop();
                    return true;
                }
            }
            false
        });
        push(&|s| {
            if let Some(p) = &mut s.panic {
                if p.index > 0 {
                    p.index -= 1;
                    return true;
                }
            }
            false
        });
        push(&|s| {
            let had = s.cost_gen != Cost::Zero;
            s.cost_gen = Cost::Zero;
            had
        });
        push(&|s| {
            let had = s.cost_drop != Cost::Zero;
            s.cost_drop = Cost::Zero;
            had
        });
        push(&|s| {
            if s.oshape != Shape::Z {
                s.oshape = Shape::Z;
                true
            } else {
                false
            }
        });
        push(&|s| {
            if s.ishape != Shape::Z {
                s.ishape = Shape::Z;
                true
            } else {
                false
            }
        });
        push(&|s| {
            if s.min_time.is_some() {
                s.min_time = None;
                true
            } else {
                false
            }
        });
        push(&|s| {
            if s.skip_ext.is_some() {
                s.skip_ext = None;
                true
            } else {
                false
            }
        });
        push(&|s| {
            if s.test_mode {
                s.test_mode = false;
                true
            } else {
                false
            }
        });
        c
    }
}
