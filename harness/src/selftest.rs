//! Oracle self-tests on tampered histories.
//!
//! Oracles are pure functions `scenario x history x outcome -> violations`.
//! Here a *valid* history is produced by running the real code, checked to be
//! clean, and then corrupted in one specific way at a time (an event
//! duplicated, removed, moved or re-attributed; a stored figure changed). The
//! oracle must report the expected violation class for each corruption — and
//! nothing for the untouched history. This establishes the oracles'
//! sensitivity independently of any change to the code under test.

use dsim::{
    event::{AtomOp, Ord8},
    Ev, Event, RunResult, StrategySpec, UserEv,
};

use crate::{
    batch::Case,
    common::Prop,
    loopcheck,
    looprun::{phase, Cost, Entry, LoopOut, LoopScn, Shape},
    pool::{self, Api, Bcast, PoolOutcome, PoolScn},
};

struct T {
    failures: Vec<String>,
    passed: usize,
}

impl T {
    fn expect(&mut self, name: &str, got: &[crate::common::Violation], class: Option<&str>) {
        let ok = match class {
            None => got.is_empty(),
            Some(c) => got.iter().any(|v| v.class == c),
        };
        if ok {
            self.passed += 1;
        } else {
            self.failures.push(format!(
                "{name}: expected {:?}, oracle reported {:?}",
                class,
                got.iter().map(|v| v.class.as_str()).collect::<Vec<_>>()
            ));
        }
    }
}

fn renumber(r: &mut RunResult) {
    for (i, e) in r.events.iter_mut().enumerate() {
        e.seq = i as u32;
    }
}

fn clone_result(r: &RunResult) -> RunResult {
    RunResult {
        events: r.events.clone(),
        decisions: r.decisions.clone(),
        failure: r.failure.clone(),
        steps: r.steps,
        threads: r.threads,
        ticks: r.ticks,
        faults_fired: r.faults_fired.clone(),
        probes: r.probes.clone(),
        sync_sig: r.sync_sig,
        main_panic: r.main_panic.clone(),
        precision_reads: r.precision_reads,
    }
}

fn pos(r: &RunResult, f: impl Fn(&Event) -> bool) -> usize {
    r.events.iter().position(f).expect("event present in the valid history")
}

fn rpos(r: &RunResult, f: impl Fn(&Event) -> bool) -> usize {
    r.events.iter().rposition(f).expect("event present in the valid history")
}

fn pool_tests(t: &mut T) {
    let scn = PoolScn {
        broadcasts: vec![
            Bcast { n: 2, api: Api::ParExtend, panics: vec![], helper_caller: false, payload_bomb: false, lane: 0 },
            Bcast { n: 2, api: Api::ParExtend, panics: vec![1], helper_caller: false, payload_bomb: false, lane: 0 },
        ],
        lanes: 1,
        spurious_parks: vec![],
        cas_weak_fail: vec![],
    };
    let (r, out) = scn.execute(scn.run_config(1, StrategySpec::Random { switch_permille: 350 }));
    t.expect("pool/valid/C06", &pool::check_c06(&scn, &r, &out), None);
    t.expect("pool/valid/C07", &pool::check_c07(&scn, &r, &out), None);

    let tamper = |f: &dyn Fn(&mut RunResult, &mut PoolOutcome)| {
        let mut r2 = clone_result(&r);
        let mut o2 = out.clone();
        f(&mut r2, &mut o2);
        renumber(&mut r2);
        pool::check_c06(&scn, &r2, &o2)
    };
    let is_begin = |j: u32, i: u32| move |e: &Event| matches!(e.kind, Ev::User(UserEv::TaskBegin { j: jj, i: ii }) if jj == j && ii == i);
    let is_end = |j: u32, i: u32| move |e: &Event| matches!(e.kind, Ev::User(UserEv::TaskEnd { j: jj, i: ii }) if jj == j && ii == i);

    t.expect("pool/task_begin_duplicated", &tamper(&|r, _| {
        let p = pos(r, is_begin(0, 1));
        let e = r.events[p];
        r.events.insert(p + 1, e);
    }), Some("called_twice"));
    t.expect("pool/task_begin_removed", &tamper(&|r, _| {
        let p = pos(r, is_begin(0, 2));
        r.events.remove(p);
    }), Some("not_called"));
    t.expect("pool/return_moved_before_task_end", &tamper(&|r, _| {
        let ret = pos(r, |e| matches!(e.kind, Ev::User(UserEv::BroadcastReturn { j: 0 })));
        let e = r.events.remove(ret);
        let end = pos(r, is_end(0, 1));
        r.events.insert(end, e);
    }), Some("returned_early"));
    t.expect("pool/return_clock_forgets_a_worker", &tamper(&|r, _| {
        let ret = pos(r, |e| matches!(e.kind, Ev::User(UserEv::BroadcastReturn { j: 0 })));
        r.events[ret].vc = dsim::vclock::VClock::ZERO;
    }), Some("missing_happens_before"));
    t.expect("pool/result_slot_changed", &tamper(&|_, o| o.results[0][1] = Some(42)), Some("wrong_result"));
    t.expect("pool/panicked_call_has_a_result", &tamper(&|_, o| o.results[1][1] = Some(42)), Some("wrong_result"));
    t.expect("pool/aux_index_on_caller", &tamper(&|r, _| {
        let p = pos(r, is_begin(0, 1));
        r.events[p].tid = 0;
    }), Some("aux_on_caller"));
    t.expect("pool/index0_off_caller", &tamper(&|r, _| {
        let p = pos(r, is_begin(0, 0));
        r.events[p].tid = 2;
    }), Some("index0_off_caller"));
    t.expect("pool/two_indices_one_worker", &tamper(&|r, _| {
        let p1 = pos(r, is_begin(0, 1));
        let t1 = r.events[p1].tid;
        let p2 = pos(r, is_begin(0, 2));
        r.events[p2].tid = t1;
    }), Some("shared_worker"));
    t.expect("pool/extra_spawn", &tamper(&|r, _| {
        let p = pos(r, |e| matches!(e.kind, Ev::Spawn { .. }));
        let e = r.events[p];
        r.events.insert(p + 1, e);
    }), Some("spawn_conservation"));
    t.expect("pool/worker_count_differs", &tamper(&|_, o| o.aux_counts[1] = 3), Some("spawn_conservation"));
    // Frame liveness is judged while a run proceeds: drive the monitor with
    // a synthetic sequence of events and touches.
    {
        use dsim::Monitor;
        let mk = |tid: u8, kind: Ev| Event { seq: 0, tid, vt: 0, kind, vc: dsim::vclock::VClock::ZERO, unwinding: false };
        let verdict = |touch_tid: usize, addr: usize, setup: &dyn Fn(&pool::FrameLiveness)| -> Vec<crate::common::Violation> {
            let m = pool::FrameLiveness::default();
            setup(&m);
            m.pre_touch(touch_tid, addr).map(|msg| crate::batch::invariant_violation(&msg)).into_iter().collect()
        };
        let top = 0x7000_0000usize;
        let base = |m: &pool::FrameLiveness, ret: bool| {
            m.on_event(&mk(0, Ev::Spawn { child: 1 }));
            m.on_event(&mk(0, Ev::User(UserEv::BroadcastBegin { j: 0, n: 1 })));
            m.set_frame(0, top);
            m.on_event(&mk(1, Ev::User(UserEv::TaskBegin { j: 0, i: 1 })));
            m.on_event(&mk(1, Ev::User(UserEv::TaskEnd { j: 0, i: 1 })));
            m.on_event(&mk(0, Ev::User(UserEv::TaskBegin { j: 0, i: 0 })));
            m.on_event(&mk(0, Ev::User(UserEv::TaskEnd { j: 0, i: 0 })));
            if ret {
                m.on_event(&mk(0, Ev::User(UserEv::BroadcastReturn { j: 0 })));
            }
        };
        t.expect("pool/monitor_stale_touch_after_return", &verdict(1, top - 200, &|m| base(m, true)), Some("touch_after_release"));
        t.expect("pool/monitor_touch_before_return", &verdict(1, top - 200, &|m| base(m, false)), None);
        t.expect("pool/monitor_touch_elsewhere", &verdict(1, top + (1 << 20), &|m| base(m, true)), None);
        t.expect("pool/monitor_owner_touches_own_stack", &verdict(0, top - 200, &|m| base(m, true)), None);
        t.expect("pool/monitor_thread_created_later", &verdict(2, top - 200, &|m| {
            base(m, true);
            m.on_event(&mk(0, Ev::Spawn { child: 2 }));
        }), None);
        t.expect("pool/monitor_next_broadcast_in_progress", &verdict(1, top - 200, &|m| {
            base(m, true);
            m.on_event(&mk(0, Ev::User(UserEv::BroadcastBegin { j: 1, n: 1 })));
            m.set_frame(1, top);
        }), None);
        let early = {
            let m = pool::FrameLiveness::default();
            m.on_event(&mk(0, Ev::Spawn { child: 1 }));
            m.on_event(&mk(0, Ev::User(UserEv::BroadcastBegin { j: 0, n: 1 })));
            m.on_event(&mk(0, Ev::User(UserEv::TaskBegin { j: 0, i: 0 })));
            m.on_event(&mk(0, Ev::User(UserEv::TaskEnd { j: 0, i: 0 })));
            m.on_event(&mk(0, Ev::User(UserEv::BroadcastReturn { j: 0 })))
                .map(|msg| crate::batch::invariant_violation(&msg))
                .into_iter()
                .collect::<Vec<_>>()
        };
        t.expect("pool/monitor_returned_early", &early, Some("returned_early"));
        // Concurrent callers: two broadcasts in progress on two stacks.
        let top2 = 0x7100_0000usize;
        let two = |m: &pool::FrameLiveness, a_returns: bool| {
            m.on_event(&mk(0, Ev::Spawn { child: 1 }));
            m.on_event(&mk(0, Ev::Spawn { child: 2 }));
            m.on_event(&mk(1, Ev::Spawn { child: 3 }));
            m.on_event(&mk(1, Ev::User(UserEv::BroadcastBegin { j: 0, n: 1 })));
            m.set_frame(0, top);
            m.on_event(&mk(2, Ev::User(UserEv::BroadcastBegin { j: 1, n: 1 })));
            m.set_frame(1, top2);
            m.on_event(&mk(3, Ev::User(UserEv::TaskBegin { j: 0, i: 1 })));
            m.on_event(&mk(3, Ev::User(UserEv::TaskEnd { j: 0, i: 1 })));
            m.on_event(&mk(1, Ev::User(UserEv::TaskBegin { j: 0, i: 0 })));
            m.on_event(&mk(1, Ev::User(UserEv::TaskEnd { j: 0, i: 0 })));
            if a_returns {
                m.on_event(&mk(1, Ev::User(UserEv::BroadcastReturn { j: 0 })));
            }
        };
        t.expect("pool/monitor_lanes_stale_touch_while_other_caller_busy", &verdict(3, top - 200, &|m| two(m, true)), Some("touch_after_release"));
        t.expect("pool/monitor_lanes_touch_of_open_broadcast_on_other_stack", &verdict(3, top2 - 200, &|m| two(m, true)), None);
        t.expect("pool/monitor_lanes_touch_before_own_return", &verdict(3, top - 200, &|m| two(m, false)), None);
        let early2 = {
            let m = pool::FrameLiveness::default();
            two(&m, true);
            // The second caller comes back although its worker call never ran.
            m.on_event(&mk(2, Ev::User(UserEv::TaskBegin { j: 1, i: 0 })));
            m.on_event(&mk(2, Ev::User(UserEv::TaskEnd { j: 1, i: 0 })));
            m.on_event(&mk(2, Ev::User(UserEv::BroadcastReturn { j: 1 })))
                .map(|msg| crate::batch::invariant_violation(&msg))
                .into_iter()
                .collect::<Vec<_>>()
        };
        t.expect("pool/monitor_lanes_returned_early_judged_per_broadcast", &early2, Some("returned_early"));
    }
    t.expect("pool/index_out_of_range", &tamper(&|r, _| {
        let p = pos(r, is_begin(0, 2));
        r.events[p].kind = Ev::User(UserEv::TaskBegin { j: 0, i: 9 });
    }), Some("index_out_of_range"));

    // C07: a worker that never exits; a deadlock state.
    let mut r2 = clone_result(&r);
    let p = rpos(&r2, |e| e.tid != 0 && matches!(e.kind, Ev::Exit));
    r2.events.remove(p);
    renumber(&mut r2);
    t.expect("pool/worker_never_exits", &pool::check_c07(&scn, &r2, &out), Some("worker_leak"));
    let mut r3 = clone_result(&r);
    let cut = pos(&r3, |e| matches!(e.kind, Ev::User(UserEv::BroadcastReturn { j: 1 })));
    r3.events.truncate(cut);
    r3.failure = Some(dsim::Failure::Deadlock { blocked: vec![(0, "Park".into())] });
    t.expect("pool/deadlock_state", &pool::check_c07(&scn, &r3, &out), Some("deadlock"));
    let mut r4 = clone_result(&r);
    r4.failure = Some(dsim::Failure::NoProgress { steps: 20_001 });
    t.expect("pool/no_progress", &pool::check_c07(&scn, &r4, &out), Some("no_progress"));
}

fn clone_out(o: &LoopOut) -> LoopOut {
    LoopOut {
        returned: o.returned,
        did_run: o.did_run,
        sample_size: o.sample_size,
        durations: o.durations.clone(),
        allocs: o.allocs.clone(),
        counts: o.counts.clone(),
        uses_input_counts: o.uses_input_counts,
        capacity: o.capacity,
        stats: o.stats.clone(),
        stats_handle: None,
        stats_panic_location: o.stats_panic_location.clone(),
        painted: o.painted.clone(),
        caller_panic: o.caller_panic.clone(),
    }
}

fn loop_tests(t: &mut T) {
    let scn = LoopScn {
        entry: Entry::BenchRefs,
        ishape: Shape::Sd,
        oshape: Shape::Sd,
        sample_size: Some(2),
        sample_count: Some(4),
        threads: 2,
        input_counters: [true, false, false, true],
        counter_seed: 7,
        cost_gen: Cost::Const(5),
        cost_call: Cost::Grow { base: 100, inc: 17 },
        cost_drop: Cost::Const(3),
        alloc_seed: 11,
        alloc_max_ops: 2,
        alloc_phases: phase::ALL,
        ..LoopScn::default()
    };
    let (r, out) = scn.execute(1, StrategySpec::Random { switch_permille: 350 });
    let checks: [(Prop, fn(&LoopScn, &RunResult, &LoopOut) -> Vec<crate::common::Violation>); 6] = [
        (Prop::C01, loopcheck::check_c01),
        (Prop::C02, loopcheck::check_c02),
        (Prop::C03, loopcheck::check_c03),
        (Prop::C05, loopcheck::check_c05),
        (Prop::C08, loopcheck::check_c08),
        (Prop::C11, loopcheck::check_c11),
    ];
    for (p, f) in checks {
        t.expect(&format!("loop/valid/{p}"), &f(&scn, &r, &out), None);
    }
    t.expect("loop/valid/C04", &loopcheck::check_c04(&scn, &r, &out), None);

    type Chk = fn(&LoopScn, &RunResult, &LoopOut) -> Vec<crate::common::Violation>;
    let tamper = |chk: Chk, f: &dyn Fn(&mut RunResult, &mut LoopOut)| {
        let mut r2 = clone_result(&r);
        let mut o2 = clone_out(&out);
        f(&mut r2, &mut o2);
        renumber(&mut r2);
        chk(&scn, &r2, &o2)
    };
    let is_drop_in = |e: &Event| matches!(e.kind, Ev::User(UserEv::DropInput { .. }));
    let is_drop_out = |e: &Event| matches!(e.kind, Ev::User(UserEv::DropOutput { .. }));
    let is_call = |e: &Event| matches!(e.kind, Ev::User(UserEv::CallBegin { .. }));
    let is_gen = |e: &Event| matches!(e.kind, Ev::User(UserEv::Gen { .. }));

    // C01
    t.expect("loop/C01/input_dropped_twice", &tamper(loopcheck::check_c01, &|r, _| {
        let p = pos(r, is_drop_in);
        let e = r.events[p];
        r.events.insert(p + 1, e);
    }), Some("double_drop"));
    t.expect("loop/C01/output_never_dropped", &tamper(loopcheck::check_c01, &|r, _| {
        let p = pos(r, is_drop_out);
        r.events.remove(p);
    }), Some("leak"));
    t.expect("loop/C01/input_before_its_output", &tamper(loopcheck::check_c01, &|r, _| {
        let o = pos(r, is_drop_out);
        let tid = r.events[o].tid;
        let i = (o..r.events.len()).find(|&k| r.events[k].tid == tid && is_drop_in(&r.events[k])).unwrap();
        r.events.swap(o, i);
    }), Some("drop_order"));
    t.expect("loop/C01/call_on_another_thread", &tamper(loopcheck::check_c01, &|r, _| {
        let p = pos(r, is_call);
        r.events[p].tid ^= 1;
    }), Some("wrong_thread"));
    t.expect("loop/C01/input_called_twice", &tamper(loopcheck::check_c01, &|r, _| {
        let p = pos(r, is_call);
        let e = r.events[p];
        r.events.insert(p + 1, e);
    }), Some("called_twice"));
    t.expect("loop/C01/input_never_generated", &tamper(loopcheck::check_c01, &|r, _| {
        let p = pos(r, is_gen);
        r.events.remove(p);
    }), Some("never_generated"));
    t.expect("loop/C01/counter_sees_input_twice", &tamper(loopcheck::check_c01, &|r, _| {
        let p = pos(r, |e| matches!(e.kind, Ev::User(UserEv::Count { .. })));
        let e = r.events[p];
        r.events.insert(p + 1, e);
    }), Some("counter_calls"));
    t.expect("loop/C01/drop_inside_timed_section", &tamper(loopcheck::check_c01, &|r, _| {
        let d = pos(r, is_drop_out);
        let tid = r.events[d].tid;
        let e = r.events.remove(d);
        // before this thread's preceding end timestamp
        let end = (0..d).rev().find(|&k| r.events[k].tid == tid && matches!(r.events[k].kind, Ev::ClockRead { which: dsim::event::Which::End, .. })).unwrap();
        r.events.insert(end, e);
    }), Some("drop_in_timed_section"));

    // C02
    t.expect("loop/C02/generation_inside_timed_section", &tamper(loopcheck::check_c02, &|r, _| {
        let c = pos(r, is_call);
        let tid = r.events[c].tid;
        let g = (0..c).rev().find(|&k| r.events[k].tid == tid && is_gen(&r.events[k])).unwrap();
        let e = r.events.remove(g);
        r.events.insert(c, e);
    }), Some("foreign_work_in_timed_section"));
    t.expect("loop/C02/stored_alloc_figures_changed", &tamper(loopcheck::check_c02, &|_, o| {
        let a = o.allocs.iter_mut().flatten().next().expect("a sample with allocations");
        a.tallies[2].0 += 1;
    }), Some("alloc_attribution"));
    t.expect("loop/C02/alloc_op_of_generator_attributed", &tamper(loopcheck::check_c02, &|r, _| {
        // An allocator op logged in the window that the stored figures do
        // not contain.
        let c = pos(r, |e| matches!(e.kind, Ev::User(UserEv::CallEnd { .. })));
        let mut e = r.events[c];
        e.kind = Ev::User(UserEv::AllocOp { op: dsim::event::AllocKind::Alloc, size: 12345, new_size: 0 });
        r.events.insert(c, e);
    }), Some("alloc_attribution"));
    t.expect("loop/C02/call_after_end_timestamp", &tamper(loopcheck::check_c02, &|r, _| {
        let c = rpos(r, is_call);
        let tid = r.events[c].tid;
        let e = r.events.remove(c);
        let end = (c..r.events.len()).find(|&k| r.events[k].tid == tid && matches!(r.events[k].kind, Ev::ClockRead { which: dsim::event::Which::End, .. })).unwrap();
        r.events.insert(end + 1, e);
    }), Some("call_outside_timed_section"));

    // C03
    t.expect("loop/C03/one_call_missing", &tamper(loopcheck::check_c03, &|r, _| {
        let p = pos(r, is_call);
        r.events.remove(p);
    }), Some("call_count"));
    t.expect("loop/C03/one_sample_not_stored", &tamper(loopcheck::check_c03, &|_, o| {
        o.durations.pop();
    }), Some("sample_count"));
    t.expect("loop/C03/reported_iters_wrong", &tamper(loopcheck::check_c03, &|_, o| {
        if let Some(Ok(s)) = &mut o.stats {
            s.iter_count += 1;
        }
    }), Some("reported_counts"));

    // C04: the last round never ran although the rule continues.
    t.expect("loop/C04/stopped_one_round_early", &tamper(loopcheck::check_c04, &|r, o| {
        // Cut the history after the first round's last event.
        let starts: Vec<usize> = r.events.iter().enumerate().filter(|(_, e)| e.tid == 0 && matches!(e.kind, Ev::ClockRead { which: dsim::event::Which::Start, .. })).map(|(i, _)| i).collect();
        // starts[0] is the initial timestamp, starts[1] round 0, starts[2] round 1.
        let cut = (0..starts[2]).rev().find(|&k| is_gen(&r.events[k]) && r.events[..k].iter().rev().take_while(|e| !matches!(e.kind, Ev::ClockRead { which: dsim::event::Which::End, .. })).all(|e| !is_call(e))).unwrap_or(starts[2]);
        let first_gen_round1 = r.events.iter().enumerate().filter(|(_, e)| is_gen(e)).map(|(i, _)| i).find(|&i| {
            r.events[..i].iter().any(|e| matches!(e.kind, Ev::ClockRead { which: dsim::event::Which::End, .. }))
        }).unwrap_or(cut);
        r.events.truncate(first_gen_round1);
        o.durations.truncate(2);
        o.allocs.truncate(2);
    }), Some("stop_rule"));

    // C05
    t.expect("loop/C05/median_changed", &tamper(loopcheck::check_c05, &|_, o| {
        if let Some(Ok(s)) = &mut o.stats {
            s.time[2] += 1;
        }
    }), Some("time_stats"));
    t.expect("loop/C05/stored_duration_changed", &tamper(loopcheck::check_c05, &|_, o| o.durations[1] += 1000), Some("stored_duration"));
    t.expect("loop/C05/alloc_mean_changed", &tamper(loopcheck::check_c05, &|_, o| {
        if let Some(Ok(s)) = &mut o.stats {
            s.alloc_tallies[2].0[3] += 0.5;
        }
    }), Some("alloc_stats"));
    t.expect("loop/C05/nan_in_stats", &tamper(loopcheck::check_c05, &|_, o| {
        if let Some(Ok(s)) = &mut o.stats {
            s.max_alloc_size[3] = f64::NAN;
        }
    }), Some("nan"));
    t.expect("loop/C05/counter_fastest_changed", &tamper(loopcheck::check_c05, &|_, o| {
        if let Some(Ok(s)) = &mut o.stats {
            if let Some(c) = &mut s.counts[0] {
                c[0] = c[0].wrapping_add(1_000_003);
            }
        }
    }), Some("counter_stats"));
    t.expect("loop/C05/per_iteration_counter_value_changed", &tamper(loopcheck::check_c05, &|_, o| o.counts[3][0] += 1), Some("counter_value"));
    t.expect("loop/C05/stats_panicked", &tamper(loopcheck::check_c05, &|_, o| o.stats = Some(Err("boom".into()))), Some("stats_panic"));
    t.expect("loop/C05/painted_nan", &tamper(loopcheck::check_c05, &|_, o| o.painted = Some(Ok("x NaN y".into()))), Some("nan"));

    // C08
    t.expect("loop/C08/start_before_other_thread_ready", &tamper(loopcheck::check_c08, &|r, _| {
        // Move thread 1's first start timestamp before thread 0's first Gen.
        let s1 = pos(r, |e| e.tid == 1 && matches!(e.kind, Ev::ClockRead { which: dsim::event::Which::Start, .. }));
        let e = r.events.remove(s1);
        let g0 = pos(r, |e| e.tid == 0 && is_gen(e));
        // keep thread 1's own order: its TallyCleared etc. stay before — so
        // move its pre events along is not needed for the oracle's clause.
        r.events.insert(g0, e);
    }), Some("start_before_all_ready"));
    t.expect("loop/C08/drop_before_other_thread_ended", &tamper(loopcheck::check_c08, &|r, _| {
        let d = pos(r, |e| e.tid == 0 && (is_drop_out(e) || is_drop_in(e)));
        let e = r.events.remove(d);
        let end1 = pos(r, |e| e.tid == 1 && matches!(e.kind, Ev::ClockRead { which: dsim::event::Which::End, .. }));
        let end0 = pos(r, |e| e.tid == 0 && matches!(e.kind, Ev::ClockRead { which: dsim::event::Which::End, .. }));
        // after thread 0's own end, before thread 1's end
        let at = if end0 < end1 { end1 } else { end0 + 1 };
        r.events.insert(at.min(r.events.len()), e);
        if end0 > end1 {
            // make thread 1's end the later one
            let e1 = r.events.remove(end1);
            r.events.insert(at + 1, e1);
        }
    }), Some("drop_before_all_ended"));
    t.expect("loop/C08/tally_not_cleared", &tamper(loopcheck::check_c08, &|r, _| {
        let p = pos(r, |e| e.tid == 1 && matches!(e.kind, Ev::TallyCleared));
        r.events.remove(p);
    }), Some("tally_not_cleared"));
    let mut rdead = clone_result(&r);
    rdead.failure = Some(dsim::Failure::Deadlock { blocked: vec![(1, "Barrier".into())] });
    let mut pscn = scn.clone();
    pscn.panic = Some(crate::looprun::PanicPlan { phase: dsim::event::PanicPhase::Benched, tids: vec![1], index: 0 });
    t.expect("loop/C08/hang_on_panic", &loopcheck::check_c08(&pscn, &rdead, &out), Some("hang_on_panic"));

    // C11
    t.expect("loop/C11/stored_duration_off_by_one", &tamper(loopcheck::check_c11, &|_, o| o.durations[0] += 1), Some("conversion"));

    // C19 on a tuned run.
    let tuned = LoopScn {
        entry: Entry::BenchValues,
        ishape: Shape::S,
        oshape: Shape::Z,
        sample_size: None,
        sample_count: Some(3),
        threads: 1,
        precision_override: Some(1_000),
        cost_call: Cost::Const(30),
        input_counters: [false, false, false, true],
        ..LoopScn::default()
    };
    let (rt, ot) = tuned.execute(1, StrategySpec::RunToBlock);
    t.expect("loop/valid/C19", &loopcheck::check_c19(&tuned, &rt, &ot), None);
    t.expect("loop/valid/C19-C04", &loopcheck::check_c04(&tuned, &rt, &ot), None);
    let tamper_t = |f: &dyn Fn(&mut RunResult, &mut LoopOut)| {
        let mut r2 = clone_result(&rt);
        let mut o2 = clone_out(&ot);
        f(&mut r2, &mut o2);
        renumber(&mut r2);
        loopcheck::check_c19(&tuned, &r2, &o2)
    };
    t.expect("loop/C19/tuning_round_samples_kept", &tamper_t(&|_, o| {
        o.durations.insert(0, 1);
        o.allocs.insert(0, None);
    }), Some("tuning_rule"));
    t.expect("loop/C19/reported_size_wrong", &tamper_t(&|_, o| o.sample_size *= 2), Some("tuning_rule"));
    t.expect("loop/C19/counter_data_of_tuning_rounds_kept", &tamper_t(&|_, o| o.counts[3].insert(0, 5)), Some("tuning_rule"));
    t.expect("loop/C19/a_round_did_not_double", &tamper_t(&|r, _| {
        // Remove one call (begin + end) from the second round: 1 call instead of 2.
        let calls: Vec<usize> = r.events.iter().enumerate().filter(|(_, e)| is_call(e)).map(|(i, _)| i).collect();
        let b = calls[2];
        let end = (b..r.events.len()).find(|&k| matches!(r.events[k].kind, Ev::User(UserEv::CallEnd { .. }))).unwrap();
        r.events.remove(end);
        r.events.remove(b);
    }), Some("tuning_rule"));
}

pub fn run() -> i32 {
    let mut t = T { failures: Vec::new(), passed: 0 };
    pool_tests(&mut t);
    loop_tests(&mut t);
    for f in &t.failures {
        eprintln!("ORACLE-SELFTEST-FAILED {f}");
    }
    println!("oracle selftest: {} tampered/valid histories judged as expected, {} not", t.passed, t.failures.len());
    if t.failures.is_empty() {
        0
    } else {
        2
    }
}
