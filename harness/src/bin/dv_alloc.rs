//! `dv-alloc` — C09: `AllocProfiler` is a transparent wrapper.
//!
//! The process-wide allocator of this binary is a *sandwich*
//! `Outer<AllocProfiler<Spy>>`. `Outer` notes every request a thread makes,
//! `Spy` sits where the wrapped allocator sits and checks — on the fly,
//! without allocating — that exactly that request arrives, once, with the
//! same arguments, and `Outer` checks that what comes back is what `Spy`
//! returned. *Marked* requests (issued by the harness) get scripted inner
//! results, null included, and never touch the system allocator; organic
//! requests (Rust runtime, simulator, thread spawn, TLS tear-down) are
//! forwarded and checked all the same.
//!
//! ```text
//! dv-alloc check [quick|thorough]      exit 0 / 1 (+ VIOLATION line) / 2
//! dv-alloc replay <file>
//! ```

#[path = "../common.rs"]
#[allow(dead_code)]
mod common;

use std::{
    alloc::{GlobalAlloc, Layout, System},
    cell::Cell,
    sync::atomic::{AtomicU64, AtomicUsize, Ordering::Relaxed},
    time::Instant,
};

use dsim::{probe, rng::Rng, shim, RunConfig, StrategySpec, UserEv};
use serde_json::{json, Value};

// ---------------------------------------------------------------------------
// The sandwich
// ---------------------------------------------------------------------------

#[derive(Clone, Copy, PartialEq, Eq, Debug)]
struct Req {
    method: u8, // 0 alloc, 1 alloc_zeroed, 2 realloc, 3 dealloc
    ptr: usize,
    size: usize,
    align: usize,
    new_size: usize,
}

const NO_REQ: Req = Req { method: 255, ptr: 0, size: 0, align: 0, new_size: 0 };

struct ThreadState {
    depth: Cell<u32>,
    cur: Cell<Req>,
    inner_calls: Cell<u32>,
    inner_ret: Cell<usize>,
    /// Scripted inner result for the next request (marked request).
    marked: Cell<Option<usize>>,
    /// The mark of the request that is currently open.
    cur_mark: Cell<Option<usize>>,
    requests: Cell<u64>,
    in_teardown: Cell<bool>,
    /// Reference tally of every request this thread made (C10 cross-check on
    /// real allocator traffic), updated where `AllocProfiler` tallies: before
    /// the request is forwarded, whatever its result.
    ref_t: Cell<RefT>,
}

#[derive(Clone, Copy, PartialEq, Eq, Debug)]
struct RefT {
    /// grow, shrink, alloc, dealloc: (count, bytes).
    t: [(u64, u64); 4],
    cur_count: i64,
    max_count: i64,
    cur_size: i64,
    max_size: i64,
    equal_reallocs: u64,
}

const REF_ZERO: RefT = RefT { t: [(0, 0); 4], cur_count: 0, max_count: 0, cur_size: 0, max_size: 0, equal_reallocs: 0 };

impl RefT {
    fn apply(&mut self, req: Req) {
        let size = req.size as u64;
        match req.method {
            0 | 1 => {
                self.t[2].0 += 1;
                self.t[2].1 = self.t[2].1.wrapping_add(size);
                self.cur_count += 1;
                self.max_count = self.max_count.max(self.cur_count);
                self.cur_size = self.cur_size.wrapping_add(size as i64);
                self.max_size = self.max_size.max(self.cur_size);
            }
            3 => {
                self.t[3].0 += 1;
                self.t[3].1 = self.t[3].1.wrapping_add(size);
                self.cur_count -= 1;
                self.cur_size = self.cur_size.wrapping_sub(size as i64);
            }
            _ => {
                let new = req.new_size as u64;
                if new >= size {
                    self.t[0].0 += 1;
                    self.t[0].1 = self.t[0].1.wrapping_add(new - size);
                    if new == size {
                        self.equal_reallocs += 1;
                    }
                } else {
                    self.t[1].0 += 1;
                    self.t[1].1 = self.t[1].1.wrapping_add(size - new);
                }
                self.cur_size = self.cur_size.wrapping_add(new as i64).wrapping_sub(size as i64);
                self.max_size = self.max_size.max(self.cur_size);
            }
        }
    }

    /// First difference to what divan tallied, if any.
    fn diff(&self, g: &divan::verif::AllocPlain) -> Option<&'static str> {
        if self.equal_reallocs == 0 {
            if g.tallies != self.t {
                return Some("operation counts / byte sums");
            }
        } else if g.tallies[0].0 + g.tallies[1].0 != self.t[0].0 + self.t[1].0
            || g.tallies[0].1 != self.t[0].1
            || g.tallies[1].1 != self.t[1].1
            || g.tallies[2] != self.t[2]
            || g.tallies[3] != self.t[3]
        {
            return Some("operation counts / byte sums");
        }
        if g.max_count != self.max_count || g.current_count != self.cur_count {
            return Some("live / peak allocation count");
        }
        if g.max_size != self.max_size || g.current_size != self.cur_size {
            return Some("live / peak bytes");
        }
        None
    }
}

thread_local! {
    // Const-initialised and destructor-free: usable from inside the
    // allocator at any point of a thread's life.
    static T: ThreadState = const {
        ThreadState {
            depth: Cell::new(0),
            cur: Cell::new(NO_REQ),
            inner_calls: Cell::new(0),
            inner_ret: Cell::new(0),
            marked: Cell::new(None),
            cur_mark: Cell::new(None),
            requests: Cell::new(0),
            in_teardown: Cell::new(false),
            ref_t: Cell::new(REF_ZERO),
        }
    };
}

// Violation kinds.
const V_NESTED: usize = 1; // a request opened while another was open on the thread
const V_NO_REQUEST: usize = 2; // inner call without an open request
const V_ARGS: usize = 3; // inner call's arguments differ from the request's
const V_EXTRA_CALL: usize = 4; // second inner call for one request
const V_NO_CALL: usize = 5; // request returned without an inner call
const V_RET: usize = 6; // returned value differs from the inner result

fn kind_name(k: usize) -> &'static str {
    match k {
        V_NESTED => "nested_request",
        V_NO_REQUEST => "inner_call_without_request",
        V_ARGS => "arguments_differ",
        V_EXTRA_CALL => "extra_inner_call",
        V_NO_CALL => "no_inner_call",
        V_RET => "return_value_differs",
        _ => "unknown",
    }
}

static VIOLATIONS: AtomicU64 = AtomicU64::new(0);
/// First violation: kind, then the request, then the offending values.
static FIRST: [AtomicUsize; 12] = [const { AtomicUsize::new(0) }; 12];

extern "C" {
    fn write(fd: i32, buf: *const u8, count: usize) -> isize;
}

/// Allocation-free note on stderr, so that the first violation is known even
/// if the code under test goes on to crash the process (e.g. by copying
/// through the fabricated pointers of a marked request).
fn note_first_violation(kind: usize) {
    let mut buf = [0u8; 96];
    let mut n = 0;
    for part in [b"dv-alloc-first-violation class=" as &[u8], kind_name(kind).as_bytes(), b"\n"] {
        buf[n..n + part.len()].copy_from_slice(part);
        n += part.len();
    }
    unsafe {
        write(2, buf.as_ptr(), n);
    }
}

fn violation(kind: usize, req: Req, other: Req, a: usize, b: usize) {
    if VIOLATIONS.fetch_add(1, Relaxed) == 0 {
        note_first_violation(kind);
        let vals = [
            kind, req.method as usize, req.ptr, req.size, req.align, req.new_size,
            other.method as usize, other.ptr, other.size, other.align, a, b,
        ];
        for (slot, v) in FIRST.iter().zip(vals) {
            slot.store(v, Relaxed);
        }
    }
}

static N_ORGANIC: [AtomicU64; 4] = [const { AtomicU64::new(0) }; 4];
static N_MARKED: [AtomicU64; 4] = [const { AtomicU64::new(0) }; 4];
static N_NULL: AtomicU64 = AtomicU64::new(0);
static PANICS: AtomicU64 = AtomicU64::new(0);
static N_FIRST_ON_THREAD: AtomicU64 = AtomicU64::new(0);
static N_TEARDOWN: AtomicU64 = AtomicU64::new(0);
static N_MARKED_FIRST: AtomicU64 = AtomicU64::new(0);
static N_MARKED_TEARDOWN: AtomicU64 = AtomicU64::new(0);

struct Outer<A>(A);
struct Spy;

impl<A: GlobalAlloc> Outer<A> {
    #[inline]
    fn request(&self, req: Req, call: impl FnOnce(&A) -> usize) -> usize {
        let ok = T.try_with(|t| {
            if t.depth.get() != 0 {
                violation(V_NESTED, req, t.cur.get(), t.depth.get() as usize, 0);
            }
            t.depth.set(t.depth.get() + 1);
            t.cur.set(req);
            t.inner_calls.set(0);
            let mut rt = t.ref_t.get();
            rt.apply(req);
            t.ref_t.set(rt);
            let n = t.requests.get();
            t.requests.set(n + 1);
            if n == 0 {
                N_FIRST_ON_THREAD.fetch_add(1, Relaxed);
            }
            // The mark belongs to this one request; anything opened while it
            // is in flight (a violation in itself) is organic.
            let mark = if t.depth.get() == 1 { t.marked.take() } else { None };
            if t.depth.get() == 1 {
                t.cur_mark.set(mark);
            }
            let m = mark.is_some();
            if t.in_teardown.get() {
                N_TEARDOWN.fetch_add(1, Relaxed);
                if m {
                    N_MARKED_TEARDOWN.fetch_add(1, Relaxed);
                }
            }
            if m {
                N_MARKED[req.method as usize].fetch_add(1, Relaxed);
                if n == 0 {
                    N_MARKED_FIRST.fetch_add(1, Relaxed);
                }
            } else {
                N_ORGANIC[req.method as usize].fetch_add(1, Relaxed);
            }
        });
        let ret = call(&self.0);
        if ok.is_ok() {
            let _ = T.try_with(|t| {
                if t.inner_calls.get() == 0 {
                    violation(V_NO_CALL, req, NO_REQ, 0, 0);
                } else if req.method != 3 && t.inner_ret.get() != ret {
                    violation(V_RET, req, NO_REQ, t.inner_ret.get(), ret);
                }
                t.depth.set(t.depth.get().saturating_sub(1));
                if t.depth.get() == 0 {
                    t.cur.set(NO_REQ);
                    t.cur_mark.set(None);
                }
            });
        }
        ret
    }
}

unsafe impl<A: GlobalAlloc> GlobalAlloc for Outer<A> {
    unsafe fn alloc(&self, l: Layout) -> *mut u8 {
        self.request(Req { method: 0, ptr: 0, size: l.size(), align: l.align(), new_size: 0 }, |a| {
            a.alloc(l) as usize
        }) as *mut u8
    }
    unsafe fn alloc_zeroed(&self, l: Layout) -> *mut u8 {
        self.request(Req { method: 1, ptr: 0, size: l.size(), align: l.align(), new_size: 0 }, |a| {
            a.alloc_zeroed(l) as usize
        }) as *mut u8
    }
    unsafe fn realloc(&self, p: *mut u8, l: Layout, n: usize) -> *mut u8 {
        self.request(
            Req { method: 2, ptr: p as usize, size: l.size(), align: l.align(), new_size: n },
            |a| a.realloc(p, l, n) as usize,
        ) as *mut u8
    }
    unsafe fn dealloc(&self, p: *mut u8, l: Layout) {
        self.request(
            Req { method: 3, ptr: p as usize, size: l.size(), align: l.align(), new_size: 0 },
            |a| {
                a.dealloc(p, l);
                0
            },
        );
    }
}

impl Spy {
    #[inline]
    fn call(&self, req: Req, forward: impl FnOnce() -> usize) -> usize {
        let mut mismatch = false;
        let scripted = T
            .try_with(|t| {
                if t.depth.get() == 0 {
                    violation(V_NO_REQUEST, req, NO_REQ, 0, 0);
                } else if t.cur.get() != req {
                    violation(V_ARGS, t.cur.get(), req, 0, 0);
                    mismatch = true;
                }
                let c = t.inner_calls.get() + 1;
                t.inner_calls.set(c);
                if c > 1 {
                    violation(V_EXTRA_CALL, t.cur.get(), req, c as usize, 0);
                    mismatch = true;
                }
                if t.depth.get() == 1 {
                    t.cur_mark.get()
                } else {
                    None
                }
            })
            .ok()
            .flatten();
        let ret = match scripted {
            // An inner call that is not the marked request itself (other
            // arguments, or a second call) is answered "null": the request's
            // pointers are fabricated, and the violation is already recorded.
            Some(_) if mismatch => 0,
            Some(v) => v,
            None => forward(),
        };
        if ret == 0 && req.method != 3 {
            N_NULL.fetch_add(1, Relaxed);
        }
        let _ = T.try_with(|t| t.inner_ret.set(ret));
        ret
    }
}

unsafe impl GlobalAlloc for Spy {
    unsafe fn alloc(&self, l: Layout) -> *mut u8 {
        self.call(Req { method: 0, ptr: 0, size: l.size(), align: l.align(), new_size: 0 }, || {
            System.alloc(l) as usize
        }) as *mut u8
    }
    unsafe fn alloc_zeroed(&self, l: Layout) -> *mut u8 {
        self.call(Req { method: 1, ptr: 0, size: l.size(), align: l.align(), new_size: 0 }, || {
            System.alloc_zeroed(l) as usize
        }) as *mut u8
    }
    unsafe fn realloc(&self, p: *mut u8, l: Layout, n: usize) -> *mut u8 {
        self.call(
            Req { method: 2, ptr: p as usize, size: l.size(), align: l.align(), new_size: n },
            || System.realloc(p, l, n) as usize,
        ) as *mut u8
    }
    unsafe fn dealloc(&self, p: *mut u8, l: Layout) {
        self.call(
            Req { method: 3, ptr: p as usize, size: l.size(), align: l.align(), new_size: 0 },
            || {
                System.dealloc(p, l);
                0
            },
        );
    }
}

#[global_allocator]
static G: Outer<divan::AllocProfiler<Spy>> = Outer(divan::AllocProfiler::new(Spy));

// ---------------------------------------------------------------------------
// Marked requests
// ---------------------------------------------------------------------------

/// One scripted request with its scripted inner result.
#[derive(Clone, Copy, Debug, PartialEq, Eq)]
struct Marked {
    method: u8,
    size: usize,
    align: usize,
    new_size: usize,
    /// 0: fabricated pointer, 1: null, 2 (realloc): a different pointer.
    result: u8,
}

const SIZES: [usize; 8] = [0, 1, 7, 8, 4096, 1 << 31, 1 << 40, isize::MAX as usize];
const ALIGNS: [usize; 13] = [1, 2, 4, 8, 16, 32, 64, 128, 256, 512, 1024, 2048, 4096];

fn layout_of(size: usize, align: usize) -> Option<Layout> {
    // isize::MAX is rounded down to what the alignment admits.
    let size = if size > isize::MAX as usize - (align - 1) { (isize::MAX as usize - (align - 1)) & !(align - 1) } else { size };
    Layout::from_size_align(size, align).ok()
}

/// The full grid: method x size x alignment x inner result (x new size).
fn grid() -> Vec<Marked> {
    let mut g = Vec::new();
    for method in 0..4u8 {
        for &size in &SIZES {
            for &align in &ALIGNS {
                let results: &[u8] = match method {
                    3 => &[0],
                    2 => &[0, 1, 2],
                    _ => &[0, 1],
                };
                for &result in results {
                    if method == 2 {
                        for &new_size in &[0usize, 1, size, size.saturating_add(1).min(isize::MAX as usize - 4096), 1 << 20] {
                            g.push(Marked { method, size, align, new_size, result });
                        }
                    } else {
                        g.push(Marked { method, size, align, new_size: 0, result });
                    }
                }
            }
        }
    }
    g
}

#[derive(Debug)]
struct Mismatch {
    req: Marked,
    got: usize,
    want: usize,
}

/// Issues one marked request through the process allocator and checks that
/// it returns exactly the scripted inner result. Allocation-free.
fn issue(m: Marked) -> Result<(), Mismatch> {
    let Some(layout) = layout_of(m.size, m.align) else { return Ok(()) };
    let fab = 0x1000usize.max(m.align);
    let old_ptr = fab;
    let scripted = match (m.method, m.result) {
        (3, _) => 0,
        (_, 1) => 0,
        (2, 2) => fab * 3,
        _ => fab,
    };
    T.with(|t| t.marked.set(Some(scripted)));
    // SAFETY: marked requests never reach the system allocator; the
    // pointers are never dereferenced.
    let got = std::panic::catch_unwind(|| unsafe {
        match m.method {
            0 => G.alloc(layout) as usize,
            1 => G.alloc_zeroed(layout) as usize,
            2 => G.realloc(old_ptr as *mut u8, layout, m.new_size) as usize,
            _ => {
                G.dealloc(old_ptr as *mut u8, layout);
                0
            }
        }
    });
    T.with(|t| {
        t.marked.set(None);
        if got.is_err() {
            // The request never closed.
            t.depth.set(0);
            t.cur.set(NO_REQ);
            t.cur_mark.set(None);
        }
    });
    let got = match got {
        Ok(g) => g,
        Err(_) => {
            PANICS.fetch_add(1, Relaxed);
            return Err(Mismatch { req: m, got: usize::MAX, want: scripted });
        }
    };
    if got != scripted {
        return Err(Mismatch { req: m, got, want: scripted });
    }
    Ok(())
}

/// A value whose destructor (run during TLS tear-down of its thread) issues
/// marked requests and makes organic allocations.
struct TeardownWork {
    cells: Vec<Marked>,
    sink: &'static std::sync::Mutex<Vec<String>>,
}

impl Drop for TeardownWork {
    fn drop(&mut self) {
        T.with(|t| t.in_teardown.set(true));
        let organic: Vec<u8> = Vec::with_capacity(100);
        for m in &self.cells {
            if PANICS.load(Relaxed) > 0 {
                break;
            }
            if let Err(e) = issue(*m) {
                if let Ok(mut s) = self.sink.lock() {
                    s.push(format!("in TLS destructor: {e:?}"));
                }
            }
        }
        drop(organic);
        T.with(|t| t.in_teardown.set(false));
    }
}

thread_local! {
    static TEARDOWN: std::cell::RefCell<Option<TeardownWork>> = const { std::cell::RefCell::new(None) };
}

/// Like `TeardownWork`, but registered as the very first thread-local of a
/// raw (pthread_create) thread — before any allocator request is made on it —
/// so that its destructor runs *after* the destructors of every thread-local
/// registered later (LIFO), in particular after any per-thread state
/// `AllocProfiler` might keep in a thread-local with a destructor.
struct LateWork {
    cells: std::cell::RefCell<Vec<Marked>>,
}

impl Drop for LateWork {
    fn drop(&mut self) {
        T.with(|t| t.in_teardown.set(true));
        N_LATE_TEARDOWN.fetch_add(1, Relaxed);
        let cells = std::mem::take(&mut *self.cells.borrow_mut());
        let organic: Vec<u8> = Vec::with_capacity(64);
        for m in &cells {
            if PANICS.load(Relaxed) > 0 {
                break;
            }
            if let Err(e) = issue(*m) {
                if let Ok(mut s) = MISMATCHES.lock() {
                    s.push(format!("in the last TLS destructor of a thread: {e:?}"));
                }
            }
        }
        drop(organic);
        drop(cells);
        T.with(|t| t.in_teardown.set(false));
    }
}

thread_local! {
    static LATE: LateWork = const { LateWork { cells: std::cell::RefCell::new(Vec::new()) } };
}

static N_LATE_TEARDOWN: AtomicU64 = AtomicU64::new(0);
static N_RAW_FIRST: AtomicU64 = AtomicU64::new(0);

struct RawArg {
    cells: Vec<Marked>,
}

extern "C" fn raw_thread_main(arg: *mut libc::c_void) -> *mut libc::c_void {
    // Nothing has been allocated on this thread yet: register the late
    // destructor first, then make the thread's very first request a marked
    // one.
    LATE.with(|_| ());
    // SAFETY: the parent leaked a Box<RawArg> for us.
    let arg: Box<RawArg> = unsafe { Box::from_raw(arg as *mut RawArg) };
    let first_on_thread = T.with(|t| t.requests.get() == 0);
    if first_on_thread {
        N_RAW_FIRST.fetch_add(1, Relaxed);
    }
    issue_logged(arg.cells[0], "raw_thread_first_request");
    for &m in &arg.cells[1..] {
        issue_logged(m, "raw_thread");
    }
    LATE.with(|l| *l.cells.borrow_mut() = arg.cells.clone());
    std::ptr::null_mut()
}

/// Runs `cells` on a thread created with `pthread_create` directly (no Rust
/// runtime code runs on it before `raw_thread_main`).
fn run_raw_thread(cells: Vec<Marked>) {
    let arg = Box::into_raw(Box::new(RawArg { cells })) as *mut libc::c_void;
    // SAFETY: plain pthread usage; the thread is joined.
    unsafe {
        let mut tid: libc::pthread_t = std::mem::zeroed();
        if libc::pthread_create(&mut tid, std::ptr::null(), raw_thread_main, arg) == 0 {
            libc::pthread_join(tid, std::ptr::null_mut());
        }
    }
}

static MISMATCHES: std::sync::Mutex<Vec<String>> = std::sync::Mutex::new(Vec::new());
static TALLY_MISMATCHES: std::sync::Mutex<Vec<String>> = std::sync::Mutex::new(Vec::new());
static TALLY_CHECKPOINTS: AtomicU64 = AtomicU64::new(0);

/// Clears the sandwich's reference tally and divan's tally of this thread
/// together.
fn tally_sync() {
    // Reference first: clearing divan's tally reports a probe event to the
    // simulator (hook H7), a scheduling point that may itself allocate —
    // after divan's tally was cleared. Those requests belong to both sides.
    T.with(|t| t.ref_t.set(REF_ZERO));
    let _ = divan::verif::take_thread_tally();
}

/// Compares divan's tally of this thread with the reference tally of all
/// requests (organic and marked) the thread made since the last sync.
fn tally_checkpoint(what: &str) {
    // Both reads first (neither allocates), then report.
    let got = divan::verif::peek_thread_tally();
    let want = T.with(|t| t.ref_t.get());
    TALLY_CHECKPOINTS.fetch_add(1, Relaxed);
    if let Some(g) = got {
        if let Some(d) = want.diff(&g) {
            let msg = format!("{what}: {d} differ: divan tallied {g:?}, the requests this thread made give {want:?}");
            if let Ok(mut s) = TALLY_MISMATCHES.lock() {
                if s.len() < 5 {
                    s.push(msg);
                }
            }
            // Re-sync so that one divergence is reported once.
            tally_sync();
        }
    }
}

fn issue_logged(m: Marked, phase: &str) {
    // After the first finding nothing more is issued (a broken tally would
    // make every later request fail the same way).
    if PANICS.load(Relaxed) > 0 {
        return;
    }
    if let Err(e) = issue(m) {
        MISMATCHES.lock().unwrap().push(format!("{phase}: {e:?}"));
    }
}

// ---------------------------------------------------------------------------
// Scenarios
// ---------------------------------------------------------------------------

/// Phase A: the whole grid in steady state, as a thread's first action, and
/// from a TLS destructor — on plain OS threads, joined one at a time.
fn enumerate_grid() -> (u64, u64) {
    let g = grid();
    let mut cells = 0u64;
    // Steady state on this thread.
    for &m in &g {
        issue_logged(m, "steady");
        cells += 1;
    }
    // As the very first action of a fresh thread, and at its tear-down.
    let mut threads = 0u64;
    for chunk in g.chunks(64) {
        let chunk: Vec<Marked> = chunk.to_vec();
        let h = std::thread::spawn(move || {
            // First action: a marked request (the closure's captured Vec was
            // allocated by the parent).
            issue_logged(chunk[0], "first_action");
            for &m in &chunk[1..] {
                issue_logged(m, "fresh_thread");
            }
            TEARDOWN.with(|t| {
                *t.borrow_mut() = Some(TeardownWork { cells: chunk, sink: &MISMATCHES })
            });
        });
        h.join().unwrap();
        threads += 1;
        cells += 2 * 64;
    }
    // Raw threads: first request of the thread is a marked one; the grid
    // chunk is issued again from the thread's last TLS destructor.
    for chunk in g.chunks(128) {
        run_raw_thread(chunk.to_vec());
        threads += 1;
        cells += 2 * chunk.len() as u64;
    }
    (cells, threads)
}

#[derive(Clone, Debug)]
struct SimScn {
    seed: u64,
    threads: usize,
    ops_per_thread: usize,
}

/// Phase B: seeded scripts of marked requests interleaved with organic
/// allocations on 1–6 simulated threads (controlled life-cycles: threads
/// start, run, and are torn down one at a time under the scheduler).
fn run_sim(scn: &SimScn, strategy: StrategySpec) -> dsim::RunResult {
    let g = std::sync::Arc::new(grid());
    let scn2 = scn.clone();
    let cfg = RunConfig { seed: scn.seed, strategy, max_steps: 200_000, name: "c09", ..RunConfig::default() };
    dsim::run(
        cfg,
        Box::new(move || {
            let script = move |idx: usize, g: std::sync::Arc<Vec<Marked>>| {
                let mut rng = Rng::new(scn2.seed ^ (idx as u64) << 32);
                tally_sync();
                let first = g[rng.usize_below(g.len())];
                issue_logged(first, "sim_first_action");
                tally_checkpoint("after the first request");
                probe::event(UserEv::Mark { tag: 9, a: idx as u64, b: 0 });
                let mut keep: Vec<Vec<u64>> = Vec::new();
                for k in 0..scn2.ops_per_thread {
                    match rng.below(4) {
                        0 => {
                            // Organic traffic: grow, shrink, free.
                            let mut v: Vec<u64> = Vec::with_capacity(rng.range(1, 64) as usize);
                            v.extend(0..rng.range(0, 200));
                            v.shrink_to_fit();
                            if rng.chance(1, 2) {
                                keep.push(v);
                            }
                        }
                        1 => {
                            let _ = keep.pop();
                            let s = format!("organic-{idx}-{k}");
                            std::hint::black_box(&s);
                        }
                        _ => {
                            let m = g[rng.usize_below(g.len())];
                            issue_logged(m, "sim_steady");
                        }
                    }
                    tally_checkpoint("after a script step");
                    if rng.chance(1, 8) {
                        tally_sync();
                    }
                    probe::event(UserEv::Mark { tag: 10, a: idx as u64, b: k as u64 });
                }
                let tail: Vec<Marked> = (0..rng.range(1, 6)).map(|_| g[rng.usize_below(g.len())]).collect();
                TEARDOWN.with(|t| *t.borrow_mut() = Some(TeardownWork { cells: tail, sink: &MISMATCHES }));
            };
            let mut hs = Vec::new();
            for idx in 1..scn2.threads {
                let g = g.clone();
                let script = script.clone();
                hs.push(shim::thread::spawn(move || script(idx, g)));
            }
            script(0, g.clone());
            for h in hs {
                let _ = h.join();
            }
        }),
    )
}

// ---------------------------------------------------------------------------
// Driver
// ---------------------------------------------------------------------------

fn first_violation_json() -> Value {
    let f: Vec<usize> = FIRST.iter().map(|a| a.load(Relaxed)).collect();
    let method = ["alloc", "alloc_zeroed", "realloc", "dealloc"].get(f[1]).copied().unwrap_or("?");
    json!({
        "class": kind_name(f[0]),
        "request": {"method": method, "ptr": f[2], "size": f[3], "align": f[4], "new_size": f[5]},
        "inner_call": {"method": f[6], "ptr": f[7], "size": f[8], "align": f[9]},
        "values": [f[10], f[11]],
    })
}

fn verif_root() -> std::path::PathBuf {
    std::env::var_os("VERIF_ROOT").map(Into::into).unwrap_or_else(|| "/verif".into())
}

fn check(tier: common::Tier) -> i32 {
    let seed = common::verif_seed();
    let start = Instant::now();
    println!("VERIF_SEED={seed} property=C09 tier={}", tier.name());

    let (grid_cells, grid_threads) = enumerate_grid();

    let runs: u64 = std::env::var("VERIF_RUNS").ok().and_then(|s| s.parse().ok()).unwrap_or(match tier {
        common::Tier::Quick => 300,
        common::Tier::Thorough => 6000,
    });
    let mut sim_runs = 0u64;
    let mut distinct = std::collections::HashSet::new();
    let mut samples = Vec::new();
    let mut steps = 0u64;
    for i in 0..runs {
        let run_seed = dsim::rng::mix(&[seed, 9, i]);
        let mut rng = Rng::new(run_seed);
        let scn = SimScn {
            seed: run_seed,
            threads: rng.range(1, 6) as usize,
            ops_per_thread: rng.range(0, 40) as usize,
        };
        let strategy = StrategySpec::swarm(&mut rng, scn.threads, (scn.threads * scn.ops_per_thread + 8) as u32);
        let r = run_sim(&scn, strategy.clone());
        sim_runs += 1;
        steps += r.steps as u64;
        if let Some(f) = &r.failure {
            eprintln!("HARNESS-ERROR property=C09 simulated run {i} failed: {f:?}");
            return 2;
        }
        distinct.insert((scn.threads, scn.ops_per_thread, r.sync_sig));
        if samples.len() < 3 {
            samples.push(json!({"run_index": i, "run_seed": format!("{run_seed:#x}"), "threads": scn.threads, "ops_per_thread": scn.ops_per_thread, "strategy": strategy.name(), "events": r.events.len()}));
        }
        if VIOLATIONS.load(Relaxed) > 0 || !MISMATCHES.lock().unwrap().is_empty() {
            break;
        }
    }

    let nviol = VIOLATIONS.load(Relaxed);
    let mismatches = MISMATCHES.lock().unwrap().clone();
    let wall = start.elapsed().as_secs_f64();
    let organic: Vec<u64> = N_ORGANIC.iter().map(|a| a.load(Relaxed)).collect();
    let marked: Vec<u64> = N_MARKED.iter().map(|a| a.load(Relaxed)).collect();
    let g = grid();
    samples.push(json!({"grid_cell": format!("{:?}", g[0])}));
    samples.push(json!({"grid_cell": format!("{:?}", g[g.len() / 2])}));
    let evidence = json!({
        "property_id": "C09",
        "tier": tier.name(),
        "seed": seed,
        "level": "fault_enumeration",
        "coverage": {
            "evaluations": marked.iter().sum::<u64>() + organic.iter().sum::<u64>(),
            "distinct_nontrivial": g.len() * 4 + distinct.len(),
            "rule": "every allocator request of the process passes the sandwich and is checked on the fly (request == inner call, exactly one inner call, returned == inner result, no nested request); the grid method x size x alignment x inner result (x new size) is enumerated completely in four thread phases (steady state; a fresh thread; a TLS destructor during tear-down; raw pthread threads whose very first request is a marked one and which re-issue the grid from their LAST thread-local destructor, i.e. after every thread-local registered later has been destroyed): distinct_nontrivial = grid cells x 4 phases + distinct (threads, script length, schedule signature) of the seeded simulated runs",
            "samples": samples,
            "grid_cells": g.len(),
            "grid_cells_issued": grid_cells,
            "grid_enumerated_completely": true,
            "grid_threads": grid_threads,
            "simulated_runs": sim_runs,
            "scheduling_steps_total": steps,
            "runs_per_hour": (sim_runs as f64 * 3600.0 / wall.max(1e-9)).round(),
            "requests_checked": {"organic": {"alloc": organic[0], "alloc_zeroed": organic[1], "realloc": organic[2], "dealloc": organic[3]},
                                 "marked": {"alloc": marked[0], "alloc_zeroed": marked[1], "realloc": marked[2], "dealloc": marked[3]}},
            "faults_fired": {"alloc_null": N_NULL.load(Relaxed), "realloc_moves": marked[2] / 3},
            "probes": {
                "first_request_on_a_thread": N_FIRST_ON_THREAD.load(Relaxed),
                "marked_request_as_first_request_of_a_raw_thread": N_MARKED_FIRST.load(Relaxed),
                "raw_threads_whose_first_request_was_ours": N_RAW_FIRST.load(Relaxed),
                "threads_with_requests_from_their_last_tls_destructor": N_LATE_TEARDOWN.load(Relaxed),
                "request_during_tls_teardown": N_TEARDOWN.load(Relaxed),
                "marked_request_during_tls_teardown": N_MARKED_TEARDOWN.load(Relaxed),
            },
            "components": {
                "real": ["divan::alloc::AllocProfiler<A> GlobalAlloc impl (alloc, alloc_zeroed, realloc, dealloc), ThreadAllocInfo::try_current + tally_*, thread_local CURRENT_THREAD_INFO, real thread start-up and TLS tear-down"],
                "stub": ["the wrapped allocator: Spy (scripted results for marked requests, System for organic ones)", "thread scheduling in the seeded runs (dsim)"],
            },
            "exhaustive": false,
        },
        "assumptions": [
            "per-thread request/inner-call sequences do not depend on the interleaving; the scheduler is used for controlled thread life-cycles",
            "Linux thread-local path (the macOS pthread-key path is not exercised)",
        ],
        "wall_s": (wall * 1000.0).round() / 1000.0,
        "violations": (nviol > 0 || !mismatches.is_empty()) as i64,
    });
    let dir = verif_root().join("evidence");
    let _ = std::fs::create_dir_all(&dir);
    std::fs::write(dir.join("C09.json"), serde_json::to_string_pretty(&evidence).unwrap()).unwrap();

    if nviol > 0 || !mismatches.is_empty() {
        let body = json!({
            "format": 1, "property": "C09", "engine": "dv-alloc",
            "violation": if PANICS.load(Relaxed) > 0 {
                json!({"class": "panic_inside_allocator", "message": format!("{} ({})", mismatches[0], common::take_last_panic().unwrap_or_default())})
            } else if nviol > 0 { first_violation_json() } else { json!({"class": "return_value_differs", "message": mismatches[0]}) },
            "mismatches": mismatches.iter().take(5).collect::<Vec<_>>(),
            "violations_total": nviol,
            "verif_seed": seed,
            "note": "the sandwich checks are deterministic per request: re-running `dv-alloc check` reproduces it; the grid cell is given above",
        });
        let rdir = verif_root().join("replays");
        let _ = std::fs::create_dir_all(&rdir);
        let path = rdir.join(format!("C09-{seed}.json"));
        std::fs::write(&path, serde_json::to_string_pretty(&body).unwrap()).unwrap();
        println!("class={}", body["violation"]["class"].as_str().unwrap_or("unknown"));
        println!("detail={}", body["violation"]);
        println!("VIOLATION property=C09 replay={}", path.display());
        return 1;
    }
    println!(
        "OK property=C09 tier={} seed={seed} grid_cells={} x3 phases, simulated_runs={sim_runs}, requests_checked={} wall_s={wall:.1}",
        tier.name(),
        g.len(),
        marked.iter().sum::<u64>() + organic.iter().sum::<u64>()
    );
    0
}

/// C10 cross-check on real allocator traffic: seeded simulated runs whose
/// threads mix organic allocations (Vec growth / shrink, String formatting,
/// frees; forwarded to the system allocator) with marked requests, comparing
/// divan's per-thread tally with the sandwich's reference tally of every
/// request the thread made, after every script step.
fn check_tally(tier: common::Tier) -> i32 {
    let seed = common::verif_seed();
    let start = Instant::now();
    let runs: u64 = std::env::var("VERIF_RUNS").ok().and_then(|s| s.parse().ok()).unwrap_or(match tier {
        common::Tier::Quick => 400,
        common::Tier::Thorough => 8000,
    });
    let mut done = 0u64;
    for i in 0..runs {
        let run_seed = dsim::rng::mix(&[seed, 10, i]);
        let mut rng = Rng::new(run_seed);
        let scn = SimScn { seed: run_seed, threads: rng.range(1, 6) as usize, ops_per_thread: rng.range(0, 60) as usize };
        let strategy = StrategySpec::swarm(&mut rng, scn.threads, (scn.threads * scn.ops_per_thread + 8) as u32);
        let r = run_sim(&scn, strategy);
        done += 1;
        if let Some(f) = &r.failure {
            eprintln!("HARNESS-ERROR property=C10 simulated run {i} failed: {f:?}");
            return 2;
        }
        if !TALLY_MISMATCHES.lock().unwrap().is_empty() {
            break;
        }
    }
    let mism = TALLY_MISMATCHES.lock().unwrap().clone();
    let organic: u64 = N_ORGANIC.iter().map(|a| a.load(Relaxed)).sum();
    let marked: u64 = N_MARKED.iter().map(|a| a.load(Relaxed)).sum();
    let summary = json!({
        "simulated_runs": done,
        "checkpoints": TALLY_CHECKPOINTS.load(Relaxed),
        "organic_requests": organic,
        "marked_requests": marked,
        "mismatches": mism.len(),
        "wall_s": start.elapsed().as_secs_f64(),
        "what": "divan's per-thread tally vs a reference tally of every request the thread made (organic requests forwarded to the system allocator + marked requests), compared after every script step",
    });
    println!("TALLY-CROSS-CHECK {summary}");
    if let Some(m) = mism.first() {
        let rdir = verif_root().join("replays");
        let _ = std::fs::create_dir_all(&rdir);
        let path = rdir.join(format!("C10-{seed}-real-traffic.json"));
        let body = json!({
            "format": 1, "property": "C10", "engine": "dv-alloc",
            "violation": { "class": "tally_mismatch_real_traffic", "message": m },
            "verif_seed": seed, "mode": "check-tally",
        });
        std::fs::write(&path, serde_json::to_string_pretty(&body).unwrap()).unwrap();
        println!("class=tally_mismatch_real_traffic message={m}");
        println!("VIOLATION property=C10 replay={}", path.display());
        return 1;
    }
    0
}

fn main() {
    // Panics are findings here, reported through the VIOLATION line.
    std::env::set_var("VERIF_QUIET_PANICS", "1");
    common::install_quiet_panic_hook();
    let args: Vec<String> = std::env::args().collect();
    let code = match args.get(1).map(|s| s.as_str()) {
        Some("check") => {
            let tier = args
                .get(2)
                .cloned()
                .or_else(|| std::env::var("VERIF_TIER").ok())
                .and_then(|s| common::Tier::parse(&s))
                .unwrap_or(common::Tier::Quick);
            check(tier)
        }
        Some("check-tally") => {
            let tier = args
                .get(2)
                .cloned()
                .or_else(|| std::env::var("VERIF_TIER").ok())
                .and_then(|s| common::Tier::parse(&s))
                .unwrap_or(common::Tier::Quick);
            check_tally(tier)
        }
        Some("replay") => {
            // The checks are per-request and deterministic: replaying is
            // re-running the enumeration and the seeded runs of that seed.
            let v: Value = match args.get(2).and_then(|p| std::fs::read_to_string(p).ok()).and_then(|t| serde_json::from_str(&t).ok()) {
                Some(v) => v,
                None => {
                    eprintln!("usage: dv-alloc replay <file>");
                    std::process::exit(2);
                }
            };
            if let Some(s) = v["verif_seed"].as_u64() {
                std::env::set_var("VERIF_SEED", s.to_string());
            }
            if v["mode"].as_str() == Some("check-tally") {
                check_tally(common::Tier::Quick)
            } else {
                check(common::Tier::Quick)
            }
        }
        _ => {
            eprintln!("usage: dv-alloc check [quick|thorough] | dv-alloc replay <file>");
            2
        }
    };
    std::process::exit(code);
}
