//! C10: allocation tallies are exact, per thread, and track the true peak.
//!
//! 1–8 simulated threads each run a script of allocator operations through
//! the real `AllocProfiler` (over a mock inner allocator); every operation is
//! a scheduling point, so operations of different threads interleave
//! arbitrarily. Tallies are read back (and cleared) at scripted points and
//! compared with a reference model.

use std::sync::{Arc, Mutex};

use divan::verif::AllocPlain;
use dsim::{probe, rng::Rng, shim, Ev, RunConfig, RunResult, StrategySpec, UserEv};
use serde_json::{json, Value};

use crate::{
    batch::Case,
    common::{Prop, Tier, Violation},
    loopparse::RefTally,
    looprun::{perform_op, script_op},
};

#[derive(Clone, Debug, PartialEq, Eq)]
pub struct ThreadScript {
    /// Number of allocator operations.
    pub ops: u32,
    /// Operation indices *before* which the tally is taken (copied and
    /// cleared).
    pub takes: Vec<u32>,
    /// Operation indices before which the tally is peeked (copied only).
    pub peeks: Vec<u32>,
}

#[derive(Clone, Debug, PartialEq, Eq)]
pub struct AllocScn {
    pub seed: u64,
    pub size_mode: u8,
    pub threads: Vec<ThreadScript>,
}

#[derive(Clone, Debug, Default)]
pub struct AllocOut {
    /// `(tid, taken?, snapshot)` in program order per thread.
    pub snaps: Vec<(usize, bool, Option<AllocPlain>)>,
}

impl AllocScn {
    fn gen(rng: &mut Rng, tier: Tier) -> Self {
        let thorough = tier == Tier::Thorough;
        let nthreads = rng.range(1, 8) as usize;
        let max_ops: u64 = match (thorough, rng.below(10)) {
            (true, 0) => 4000,
            (true, _) => 400,
            (false, 0) => 600,
            (false, _) => 60,
        };
        let threads = (0..nthreads)
            .map(|_| {
                let ops = rng.range(0, max_ops / nthreads as u64 + 2) as u32;
                let n_takes = rng.range(0, 4);
                let n_peeks = rng.range(0, 3);
                let mut takes: Vec<u32> = (0..n_takes).map(|_| rng.range(0, ops as u64) as u32).collect();
                let mut peeks: Vec<u32> = (0..n_peeks).map(|_| rng.range(0, ops as u64) as u32).collect();
                takes.sort_unstable();
                takes.dedup();
                peeks.sort_unstable();
                peeks.dedup();
                ThreadScript { ops, takes, peeks }
            })
            .collect();
        AllocScn { seed: rng.next_u64(), size_mode: *rng.pick(&[0u8, 1, 2, 2]), threads }
    }
}

fn run_script(scn: &AllocScn, idx: usize, out: &Mutex<AllocOut>) {
    let me = probe::tid().unwrap_or(0);
    let s = &scn.threads[idx];
    // The tally starts where the thread's life starts.
    let first = divan::verif::take_thread_tally();
    probe::event(UserEv::TallyTaken);
    out.lock().unwrap().snaps.push((me, true, first));
    for k in 0..=s.ops {
        if s.peeks.contains(&k) {
            let p = divan::verif::peek_thread_tally();
            probe::event(UserEv::Mark { tag: 1, a: k as u64, b: 0 });
            out.lock().unwrap().snaps.push((me, false, p));
        }
        if s.takes.contains(&k) || k == s.ops {
            let t = divan::verif::take_thread_tally();
            probe::event(UserEv::TallyTaken);
            out.lock().unwrap().snaps.push((me, true, t));
        }
        if k < s.ops {
            // The script is keyed by the thread's index, not its sim tid.
            perform_op(script_op(scn.seed, scn.size_mode, idx, k as u64), true);
        }
    }
}

impl Case for AllocScn {
    type Out = AllocOut;

    fn generate(rng: &mut Rng, _prop: Prop, tier: Tier) -> Self {
        AllocScn::gen(rng, tier)
    }

    fn to_json(&self) -> Value {
        json!({
            "kind": "alloc",
            "seed": self.seed,
            "size_mode": self.size_mode,
            "threads": self.threads.iter().map(|t| json!({"ops": t.ops, "takes": t.takes, "peeks": t.peeks})).collect::<Vec<_>>(),
        })
    }

    fn from_json(v: &Value) -> Option<Self> {
        let u32s = |v: &Value| -> Option<Vec<u32>> {
            v.as_array()?.iter().map(|x| x.as_u64().map(|x| x as u32)).collect()
        };
        Some(AllocScn {
            seed: v["seed"].as_u64()?,
            size_mode: v["size_mode"].as_u64()? as u8,
            threads: v["threads"]
                .as_array()?
                .iter()
                .map(|t| {
                    Some(ThreadScript {
                        ops: t["ops"].as_u64()? as u32,
                        takes: u32s(&t["takes"])?,
                        peeks: u32s(&t["peeks"])?,
                    })
                })
                .collect::<Option<Vec<_>>>()?,
        })
    }

    fn shape(&self) -> u64 {
        let mut h = dsim::event::Fnv::default();
        h.u64(self.size_mode as u64);
        for t in &self.threads {
            h.u64(t.ops as u64);
            h.u64(t.takes.len() as u64);
            h.u64(t.peeks.len() as u64);
        }
        h.finish()
    }

    fn est_len(&self) -> u32 {
        self.threads.iter().map(|t| t.ops + 8).sum::<u32>().max(8)
    }

    fn max_threads(&self) -> usize {
        self.threads.len()
    }

    fn run_config(&self, seed: u64, strategy: StrategySpec) -> RunConfig {
        RunConfig { seed, strategy, max_steps: 100_000, name: "alloc", ..RunConfig::default() }
    }

    fn execute(&self, cfg: RunConfig) -> (RunResult, AllocOut) {
        let scn = Arc::new(self.clone());
        let out = Arc::new(Mutex::new(AllocOut::default()));
        let out2 = out.clone();
        let r = dsim::run(
            cfg,
            Box::new(move || {
                let mut handles = Vec::new();
                for idx in 1..scn.threads.len() {
                    let scn = scn.clone();
                    let out = out2.clone();
                    handles.push(shim::thread::spawn(move || run_script(&scn, idx, &out)));
                }
                run_script(&scn, 0, &out2);
                for h in handles {
                    let _ = h.join();
                }
            }),
        );
        let o = out.lock().unwrap().clone();
        (r, o)
    }

    fn check(&self, _prop: Prop, r: &RunResult, out: &AllocOut) -> Vec<Violation> {
        let mut vs = Vec::new();
        if let Some(f) = &r.failure {
            if let Some(fv) = crate::batch::failure_violation(f) {
                vs.push(fv);
            }
            return vs;
        }
        if let Some(m) = &r.main_panic {
            vs.push(Violation::new("unexpected_panic", format!("allocator script panicked: {m}")));
            return vs;
        }
        for tid in 0..r.threads {
            // Reference model folded over this thread's own ops between
            // snapshot points, in program order.
            let mut reference = RefTally::default();
            let mut snaps = out.snaps.iter().filter(|s| s.0 == tid);
            let mut nth = 0usize;
            for e in r.events.iter().filter(|e| e.tid as usize == tid) {
                let (is_take, is_peek) = match e.kind {
                    Ev::User(UserEv::TallyTaken) => (true, false),
                    Ev::User(UserEv::Mark { tag: 1, .. }) => (false, true),
                    Ev::User(UserEv::AllocOp { op, size, new_size }) => {
                        reference.apply(op, size, new_size);
                        continue;
                    }
                    _ => continue,
                };
                let Some(snap) = snaps.next() else {
                    vs.push(Violation::new("history_shape", format!("thread {tid}: snapshot {nth} missing")));
                    break;
                };
                debug_assert_eq!(snap.1, is_take && !is_peek);
                if nth > 0 || !reference.is_zero() {
                    if let Some(d) = reference.diff(snap.2.as_ref()) {
                        vs.push(Violation::new(
                            "tally_mismatch",
                            format!(
                                "thread {tid}, snapshot {nth} ({}): {d} — after {:?} ops since the last clear",
                                if is_take { "take" } else { "peek" },
                                reference.t.iter().map(|x| x.0).sum::<u64>()
                            ),
                        ));
                        break;
                    }
                    if let Some(g) = &snap.2 {
                        if g.current_count != reference.cur_count || g.current_size != reference.cur_size {
                            vs.push(Violation::new(
                                "tally_mismatch",
                                format!(
                                    "thread {tid}, snapshot {nth}: live count/bytes {} / {}, expected {} / {}",
                                    g.current_count, g.current_size, reference.cur_count, reference.cur_size
                                ),
                            ));
                            break;
                        }
                    }
                } else if let Some(g) = &snap.2 {
                    // Very first snapshot of a fresh thread: nothing tallied.
                    if *g != AllocPlain::default() {
                        vs.push(Violation::new(
                            "foreign_ops_in_tally",
                            format!("thread {tid}: a fresh thread's tally is not empty: {g:?}"),
                        ));
                    }
                }
                if is_take {
                    reference = RefTally::default();
                }
                nth += 1;
            }
        }
        vs
    }

    fn probes(&self, _prop: Prop, r: &RunResult, out: &AllocOut) -> Vec<&'static str> {
        let mut h = Vec::new();
        if out.snaps.iter().any(|s| s.2.map_or(false, |a| a.current_count < 0)) {
            h.push("dealloc_below_balance_at_clear");
        }
        if out.snaps.iter().any(|s| s.2.map_or(false, |a| a.max_size > 1 << 40)) {
            h.push("peak_above_2^40_bytes");
        }
        let mut equal = false;
        let mut zero = false;
        for e in &r.events {
            if let Ev::User(UserEv::AllocOp { op: dsim::event::AllocKind::Realloc, size, new_size }) = e.kind {
                if size == new_size {
                    equal = true;
                }
                if new_size == 0 {
                    zero = true;
                }
            }
        }
        if equal {
            h.push("equal_size_realloc");
        }
        if zero {
            h.push("shrink_to_zero");
        }
        if self.threads.iter().any(|t| t.ops == 0) {
            h.push("empty_script");
        }
        if self.threads.iter().any(|t| t.ops >= 1000) {
            h.push("script_of_thousands_of_ops");
        }
        h
    }

    fn nontrivial_alone(&self, r: &RunResult, _out: &AllocOut) -> bool {
        r.events.iter().filter(|e| matches!(e.kind, Ev::User(UserEv::AllocOp { .. }))).count() >= 2
    }

    fn outcome_key(&self, _r: &RunResult, out: &AllocOut) -> u64 {
        let mut h = dsim::event::Fnv::default();
        for s in &out.snaps {
            if let Some(a) = &s.2 {
                h.u64(a.max_count as u64);
                h.u64(a.tallies[2].0);
            }
        }
        h.finish()
    }

    fn shrink_candidates(&self) -> Vec<Self> {
        let mut c = Vec::new();
        if self.threads.len() > 1 {
            for i in (0..self.threads.len()).rev() {
                let mut s = self.clone();
                s.threads.remove(i);
                c.push(s);
            }
        }
        for i in 0..self.threads.len() {
            let t = &self.threads[i];
            if t.ops > 0 {
                for new_ops in [t.ops / 2, t.ops - 1] {
                    let mut s = self.clone();
                    s.threads[i].ops = new_ops;
                    s.threads[i].takes.retain(|&k| k <= new_ops);
                    s.threads[i].peeks.retain(|&k| k <= new_ops);
                    if s != *self {
                        c.push(s);
                    }
                }
            }
            if !t.takes.is_empty() {
                let mut s = self.clone();
                s.threads[i].takes.pop();
                c.push(s);
            }
            if !t.peeks.is_empty() {
                let mut s = self.clone();
                s.threads[i].peeks.pop();
                c.push(s);
            }
        }
        c
    }
}
