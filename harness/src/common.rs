//! Shared types: property ids, tiers, violations, the quiet panic hook.

use std::{cell::RefCell, fmt, sync::Once};

#[derive(Clone, Copy, PartialEq, Eq, Hash, Debug, PartialOrd, Ord)]
pub enum Prop {
    C01,
    C02,
    C03,
    C04,
    C05,
    C06,
    C07,
    C08,
    C09,
    C10,
    C11,
    C19,
}

impl Prop {
    pub const ALL: [Prop; 12] = [
        Prop::C01,
        Prop::C02,
        Prop::C03,
        Prop::C04,
        Prop::C05,
        Prop::C06,
        Prop::C07,
        Prop::C08,
        Prop::C09,
        Prop::C10,
        Prop::C11,
        Prop::C19,
    ];

    pub fn id(self) -> &'static str {
        match self {
            Prop::C01 => "C01",
            Prop::C02 => "C02",
            Prop::C03 => "C03",
            Prop::C04 => "C04",
            Prop::C05 => "C05",
            Prop::C06 => "C06",
            Prop::C07 => "C07",
            Prop::C08 => "C08",
            Prop::C09 => "C09",
            Prop::C10 => "C10",
            Prop::C11 => "C11",
            Prop::C19 => "C19",
        }
    }

    pub fn num(self) -> u64 {
        self.id()[1..].parse().unwrap()
    }

    pub fn parse(s: &str) -> Option<Prop> {
        Prop::ALL.into_iter().find(|p| p.id().eq_ignore_ascii_case(s))
    }
}

impl fmt::Display for Prop {
    fn fmt(&self, f: &mut fmt::Formatter<'_>) -> fmt::Result {
        f.write_str(self.id())
    }
}

#[derive(Clone, Copy, PartialEq, Eq, Debug)]
pub enum Tier {
    Quick,
    Thorough,
}

impl Tier {
    pub fn name(self) -> &'static str {
        match self {
            Tier::Quick => "quick",
            Tier::Thorough => "thorough",
        }
    }
    pub fn parse(s: &str) -> Option<Tier> {
        match s {
            "quick" => Some(Tier::Quick),
            "thorough" => Some(Tier::Thorough),
            _ => None,
        }
    }
}

/// One violated clause. `class` is stable (used for minimisation and for
/// matching known findings); `message` is for humans.
#[derive(Clone, Debug, PartialEq, Eq)]
pub struct Violation {
    pub class: String,
    pub message: String,
}

impl Violation {
    pub fn new(class: &str, message: impl Into<String>) -> Self {
        Self { class: class.to_string(), message: message.into() }
    }
}

/// Payload of panics the harness injects on purpose.
pub struct InjectedPanic;

thread_local! {
    static LAST_PANIC: RefCell<Option<String>> = const { RefCell::new(None) };
}

/// The most recent panic (message and location) on the calling thread.
pub fn take_last_panic() -> Option<String> {
    LAST_PANIC.try_with(|l| l.borrow_mut().take()).ok().flatten()
}

/// Installs a panic hook that stays silent for simulated threads (panics
/// there are injected faults or findings, reported through the history) and
/// remembers message + location per thread.
pub fn install_quiet_panic_hook() {
    static ONCE: Once = Once::new();
    ONCE.call_once(|| {
        let default = std::panic::take_hook();
        std::panic::set_hook(Box::new(move |info| {
            let msg = if info.payload().is::<InjectedPanic>() {
                "<injected panic>".to_string()
            } else if let Some(s) = info.payload().downcast_ref::<&'static str>() {
                (*s).to_string()
            } else if let Some(s) = info.payload().downcast_ref::<String>() {
                s.clone()
            } else {
                "<non-string panic payload>".to_string()
            };
            let loc = info
                .location()
                .map(|l| format!(" at {}:{}", l.file(), l.line()))
                .unwrap_or_default();
            let _ = LAST_PANIC.try_with(|l| *l.borrow_mut() = Some(format!("{msg}{loc}")));
            if !dsim::sim::active() && std::env::var_os("VERIF_QUIET_PANICS").is_none() {
                default(info);
            }
        }));
    });
}

pub fn verif_seed() -> u64 {
    std::env::var("VERIF_SEED")
        .ok()
        .and_then(|s| s.trim().parse::<u64>().ok())
        .unwrap_or(1)
}

pub fn workers() -> usize {
    std::env::var("VERIF_WORKERS")
        .ok()
        .and_then(|s| s.trim().parse::<usize>().ok())
        .filter(|&n| n > 0)
        .unwrap_or_else(|| {
            std::thread::available_parallelism().map(|n| n.get()).unwrap_or(4)
        })
}

/// Converts `u128` to a JSON-friendly representation (number if it fits in
/// u64, decimal string otherwise).
pub fn j128(v: u128) -> serde_json::Value {
    if v <= u64::MAX as u128 {
        serde_json::Value::from(v as u64)
    } else {
        serde_json::Value::from(v.to_string())
    }
}

pub fn parse128(v: &serde_json::Value) -> Option<u128> {
    match v {
        serde_json::Value::Number(n) => n.as_u64().map(|x| x as u128),
        serde_json::Value::String(s) => s.parse().ok(),
        _ => None,
    }
}
