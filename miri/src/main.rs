//! Second engine for the thorough tier: a fixed family of small scenarios
//! executed by Miri (`-Zmiri-many-seeds`), i.e. on the *real* std primitives
//! with Miri's weak-memory emulation, data-race detector and precise
//! use-after-free / uninitialised-read / double-free detection. One Miri seed
//! is one repeatable schedule.
//!
//! Usage: `miri-scn pool | loop`. Any assertion failure, UB report or
//! deadlock is reported by Miri with the failing seed.

use std::sync::atomic::{AtomicUsize, Ordering::Relaxed};

use divan::verif::{LoopCfg, Pool};

struct SyncPtr(*mut u64);
unsafe impl Sync for SyncPtr {}
impl SyncPtr {
    fn get(&self) -> *mut u64 {
        self.0
    }
}

fn pool_scenario() {
    let pool = Pool::new();
    // (aux threads, panicking indices, use par_extend)
    let history: &[(usize, &[usize], bool)] = &[
        (1, &[], true),
        (2, &[1], false),
        (0, &[], true),
        (3, &[0, 2], true),
        (1, &[1], true),
        (3, &[], false),
    ];
    for (j, &(n, panics, extend)) in history.iter().enumerate() {
        // Plain (non-atomic) per-index cells: a missing happens-before edge
        // between a call and the return is a data race Miri reports.
        let mut cells: Vec<u64> = vec![0; n + 1];
        let base = SyncPtr(cells.as_mut_ptr());
        let calls = AtomicUsize::new(0);
        let task = |i: usize| -> u64 {
            calls.fetch_add(1, Relaxed);
            // SAFETY: each index is called exactly once (C06), so the
            // writes are disjoint.
            unsafe { *base.get().add(i) = (j * 100 + i + 1) as u64 };
            if panics.contains(&i) {
                std::panic::resume_unwind(Box::new(()));
            }
            (j * 100 + i + 1) as u64
        };
        if extend {
            let mut v: Vec<Option<u64>> = vec![Some(5)];
            pool.par_extend(&mut v, n, task);
            assert_eq!(v.len(), n + 2);
            assert_eq!(v[0], Some(5));
            for i in 0..=n {
                let want = if panics.contains(&i) { None } else { Some((j * 100 + i + 1) as u64) };
                assert_eq!(v[i + 1], want, "broadcast {j} index {i}");
            }
        } else {
            pool.broadcast(n, |i| {
                task(i);
            });
        }
        assert_eq!(calls.load(Relaxed), n + 1, "broadcast {j}");
        for i in 0..=n {
            assert_eq!(cells[i], (j * 100 + i + 1) as u64, "write of call {i} of broadcast {j} not visible");
        }
    }
    // The caller's call panics with a payload whose destructor panics too:
    // `broadcast` then unwinds — but only after every worker is done with the
    // stack-resident shared block (else: use of a dead frame, which Miri
    // reports).
    for n in [1usize, 2] {
        struct DropBomb;
        impl Drop for DropBomb {
            fn drop(&mut self) {
                if !std::thread::panicking() {
                    std::panic::resume_unwind(Box::new(()));
                }
            }
        }
        let finished = AtomicUsize::new(0);
        let r = std::panic::catch_unwind(std::panic::AssertUnwindSafe(|| {
            pool.broadcast(n, |i| {
                if i == 0 {
                    std::panic::resume_unwind(Box::new(DropBomb));
                }
                for _ in 0..20 {
                    std::thread::yield_now();
                }
                finished.fetch_add(1, Relaxed);
            })
        }));
        assert!(r.is_err(), "the payload's destructor panicked: broadcast unwinds");
        assert_eq!(finished.load(Relaxed), n, "broadcast came back before its calls had finished");
    }
    // Index 0 finishes last: the caller's very first look at the countdown
    // already sees zero, so whatever orders the return after the workers'
    // calls must be on that path too.
    for n in [1usize, 3] {
        let done = AtomicUsize::new(0);
        let mut v: Vec<Option<Box<u64>>> = Vec::new();
        pool.par_extend(&mut v, n, |i| {
            if i == 0 {
                while done.load(Relaxed) < n {
                    std::thread::yield_now();
                }
                // Give the workers time to finish their bookkeeping.
                for _ in 0..50 {
                    std::thread::yield_now();
                }
            } else {
                done.fetch_add(1, Relaxed);
            }
            Box::new(i as u64)
        });
        for (i, b) in v.iter().enumerate() {
            assert_eq!(**b.as_ref().unwrap(), i as u64);
        }
    }
    // Two callers use the pool at the same time ("invoking `broadcast` from
    // two threads will cause one thread to wait for the other to finish"):
    // the second caller's task reaches a worker that may still be serving
    // the first caller; every clause holds per broadcast. Plain cells again,
    // so a missing happens-before edge is a data race.
    std::thread::scope(|s| {
        for lane in 0..2usize {
            let pool = &pool;
            s.spawn(move || {
                let me = std::thread::current().id();
                for (k, n) in [[2usize, 1], [1, 3]][lane].into_iter().enumerate() {
                    let tag = (lane * 10 + k + 1) as u64 * 1000;
                    let mut cells: Vec<u64> = vec![0; n + 1];
                    let base = SyncPtr(cells.as_mut_ptr());
                    let calls = AtomicUsize::new(0);
                    pool.broadcast(n, |i| {
                        calls.fetch_add(1, Relaxed);
                        assert_eq!(i == 0, std::thread::current().id() == me, "index {i}: wrong thread");
                        // SAFETY: each index is called exactly once.
                        unsafe { *base.get().add(i) = tag + i as u64 };
                    });
                    assert_eq!(calls.load(Relaxed), n + 1);
                    for i in 0..=n {
                        assert_eq!(cells[i], tag + i as u64, "lane {lane} broadcast {k}: write of call {i} not visible");
                    }
                }
            });
        }
    });
    drop(pool);
}

/// A heap-carrying value: a slot read twice or dropped twice is a double
/// free, an uninitialised slot read is UB — Miri reports both precisely.
struct Boxed(Box<u64>);

fn loop_scenario() {
    for threads in [1usize, 2] {
        for test_mode in [false, true] {
            let cfg = LoopCfg {
                sample_count: Some(3),
                sample_size: Some(2),
                threads,
                test_mode,
                tsc_frequency: None, // Timer::Os: Miri has no inline assembly
                ..LoopCfg::default()
            };
            let made = AtomicUsize::new(0);
            let seen = AtomicUsize::new(0);
            // by reference, output with destructor
            let o = divan::verif::with_bencher(&cfg, &mut |b| {
                b.with_inputs(|| Boxed(Box::new(made.fetch_add(1, Relaxed) as u64)))
                    .input_counter(|i: &Boxed| divan::counter::ItemsCount::new(*i.0 as usize))
                    .bench_refs(|i: &mut Boxed| {
                        seen.fetch_add(1, Relaxed);
                        *i.0 += 1;
                        Boxed(Box::new(*i.0))
                    })
            });
            assert!(o.caller_panic.is_none());
            assert_eq!(made.load(Relaxed), seen.load(Relaxed));
            // by value
            let o = divan::verif::with_bencher(&cfg, &mut |b| {
                b.with_inputs(|| Boxed(Box::new(1))).bench_values(|i: Boxed| {
                    let v = *i.0;
                    drop(i);
                    Boxed(Box::new(v))
                })
            });
            assert!(o.caller_panic.is_none());
            // by reference, output without destructor (inputs-only store)
            let o = divan::verif::with_bencher(&cfg, &mut |b| {
                b.with_inputs(|| Boxed(Box::new(4))).bench_refs(|i: &mut Boxed| *i.0)
            });
            assert!(o.caller_panic.is_none());
            // no inputs, output without destructor
            let o = divan::verif::with_bencher(&cfg, &mut |b| b.bench(|| 7u64));
            assert!(o.caller_panic.is_none());
            // local forms
            let mut acc = Vec::new();
            let o = divan::verif::with_bencher(&cfg, &mut |b| {
                b.with_inputs(|| Boxed(Box::new(2))).bench_local_values(|i: Boxed| acc.push(i))
            });
            assert!(o.caller_panic.is_none());
            drop(acc);
        }
    }
    // The benchmarked function panics: values may leak, nothing is dropped
    // twice or handed out after it was dropped; with two threads the run
    // ends with a panic on the caller instead of hanging.
    for threads in [1usize, 2] {
        let cfg = LoopCfg {
            sample_count: Some(2),
            sample_size: Some(3),
            threads,
            tsc_frequency: None,
            ..LoopCfg::default()
        };
        let calls = AtomicUsize::new(0);
        let o = divan::verif::with_bencher(&cfg, &mut |b| {
            b.with_inputs(|| Boxed(Box::new(3))).bench_refs(|i: &mut Boxed| {
                let on_aux = std::thread::current().name().map_or(false, |n| n.starts_with("divan-"));
                let k = calls.fetch_add(1, Relaxed);
                if (threads == 1 && k == 4) || (threads == 2 && on_aux && k >= 2) {
                    std::panic::resume_unwind(Box::new(()));
                }
                Boxed(Box::new(*i.0))
            })
        });
        assert!(o.caller_panic.is_some(), "a panic of the benchmarked function must reach the caller");
    }
}

fn main() {
    // Injected panics are part of the scenarios.
    std::panic::set_hook(Box::new(|_| {}));
    match std::env::args().nth(1).as_deref() {
        Some("pool") => pool_scenario(),
        Some("loop") => loop_scenario(),
        _ => {
            eprintln!("usage: miri-scn pool | loop");
            std::process::exit(2);
        }
    }
}
