#!/usr/bin/env python3
"""Regenerates the result tables of DESIGN.md §11.5/§11.6 from mutants/results.tsv and seeded/*/meta.json + seeded/results.tsv."""
import json, os, re, glob
root = "/verif"
def mut_table():
    idx = {m["name"]: m for m in json.load(open(f"{root}/mutants/index.json"))}
    rows = {}
    p = f"{root}/mutants/results.tsv"
    if os.path.exists(p):
        for l in open(p):
            f = l.rstrip("\n").split("\t")
            if len(f) >= 3: rows[f[0]] = f
    out = ["| mutant | property | what the edit does | verdict (quick tier) | violation class |", "|---|---|---|---|---|"]
    for name in sorted(idx):
        r = rows.get(name)
        verdict = r[2] if r else "not run"
        cls = (r[3].replace("class=", "").strip('"') if r and len(r) > 3 else "")
        out.append(f"| `{name}` | {idx[name]['property']} | {idx[name]['what']} | {verdict} | {cls} |")
    return "\n".join(out)
def seed_table():
    res = {}
    p = f"{root}/seeded/results.tsv"
    if os.path.exists(p):
        for l in open(p):
            f = l.rstrip("\n").split("\t")
            if len(f) >= 4: res.setdefault(f[0], []).append(f)
    out = ["| seeded change | property | what it needs to manifest | checks run -> result |", "|---|---|---|---|"]
    for d in sorted(glob.glob(f"{root}/seeded/*/meta.json")):
        name = os.path.basename(os.path.dirname(d))
        m = json.load(open(d))
        rs = "; ".join(f"{f[1]}: {'caught' if f[2]=='exit=1' else 'MISSED' if f[2]=='exit=0' else f[2]} ({f[3].replace('class=','')})" for f in res.get(name, [])) or "not run"
        extra = m.get("first_run") or m.get("note")
        if extra: rs += " — *" + extra.replace("|", "/") + "*"
        out.append(f"| `{name}` | {m['property']} | {m['needs_to_manifest']} | {rs} |")
    return "\n".join(out)
s = open(f"{root}/DESIGN.md").read()
s = re.sub(r"<!-- MUTANT-TABLE-BEGIN -->.*?<!-- MUTANT-TABLE-END -->", "<!-- MUTANT-TABLE-BEGIN -->\n" + mut_table() + "\n<!-- MUTANT-TABLE-END -->", s, flags=re.S)
s = re.sub(r"<!-- SEED-TABLE-BEGIN -->.*?<!-- SEED-TABLE-END -->", "<!-- SEED-TABLE-BEGIN -->\n" + seed_table() + "\n<!-- SEED-TABLE-END -->", s, flags=re.S)
open(f"{root}/DESIGN.md", "w").write(s)
print("tables regenerated")
