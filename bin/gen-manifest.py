#!/usr/bin/env python3
"""Regenerates /verif/MANIFEST.json (kept in a script so that it stays valid and consistent)."""
import json, subprocess

na = {
 "C12": "pure function of the program text expanded by a proc-macro at compile time and of single-threaded pre-main constructors; no schedule, clock, fault or interleaving to simulate (DESIGN.md §5)",
 "C13": "pure function of (entry tree, filter set); no schedule, clock, fault or interleaving (DESIGN.md §5)",
 "C14": "pure function of (entry tree, filters, ignore flags, action); no schedule, clock, fault or interleaving (DESIGN.md §5)",
 "C15": "pure Option::or folding over (runner, benchmark, groups) and CLI parsing; no schedule, clock, fault or interleaving (DESIGN.md §5)",
 "C16": "pure comparators over names/arguments/locations; no schedule, clock, fault or interleaving (DESIGN.md §5)",
 "C17": "pure indexing of argument lists; its OnceLock is only ever touched from the main thread (DESIGN.md §5)",
 "C18": "pure function of a u128 / f64 to text; no schedule, clock, fault or interleaving (DESIGN.md §5)",
 "C20": "pure function of the sorted tree and the Stats; stdout is not a fallible seam in divan (println!) (DESIGN.md §5)",
}

SIM = "deterministic simulation: "
checks = {
 "C01": ("exploration",
   "seeded search over (entry point x input/output shape x sample size | tuned x sample count x threads x bench|test x counters x panic plan) x schedules, running the real sampling loop and DeferStore under the dsim scheduler; oracle = per-value lifecycle automaton over the event history (generated once, shown once to every input counter, exactly one call, output dropped before input, exactly-once drops, one thread, _local forms on the caller), prefixes accepted under an injected panic but never a double drop / use after drop. Sampling (evidence, not proof).",
   "trusted: dsim's Barrier/pool models, the four representative value shapes (Z, Zd, S, Sd), harness closures as the only observers of value life-cycles",
   SIM + "seeded schedule search + panic injection (benched / generator, any call index, any thread subset) with a lifecycle-automaton oracle over the recorded history", "§4.C01"),
 "C02": ("exploration",
   "same engine with an allocation script in every callback phase; oracle A: between a sample's logged start and end timestamps the thread's events are exactly that sample's calls (no generation, counter, drop, and no potentially blocking synchronisation); oracle B (refinement): the allocation figures stored for the sample equal a reference tally folded over the allocator operations the thread logged between those two readings; oracle C: a counting global allocator in the check driver reports every allocator request the library itself makes between the two readings.",
   "trusted: program-order level only (instruction-level reordering around the counter read is outside a simulator that replaces the read by a call); the virtual counter hook H5; MockAlloc",
   SIM + "seeded schedule search with scripted allocator operations; event-order oracle + refinement of per-sample allocation figures against a reference tally", "§4.C02"),
 "C03": ("exploration",
   "seeded search over (n, s, T, bench|test, entry point, max_time=0 / MAX corners) x clock anomalies (stall, forward / backward jump, zero-cost calls: no limit is reached, so the counts must not change) x schedules; conservation oracle: per-thread call and sample counts equal the closed form s*ceil(n/T), stored samples T*ceil(n/T), reported samples/iters consistent, nothing in test mode beyond one call per thread, nothing at all for n=0 / s=0 / max_time=0.",
   "trusted: options are fed through BenchOptions directly (option resolution is C15, not applicable); dsim pool/barrier models",
   SIM + "seeded schedule search with a conservation (exact count) oracle over the recorded history", "§4.C03"),
 "C04": ("exploration",
   "seeded search over time limits (unset, 0, 1 ns, around the per-round cost, MAX, min > max) x skip_ext_time x cost scripts x virtual-clock configurations x clock faults (stall, forward / backward jump, per-thread skew); oracle re-evaluates the documented stop rule on the raw logged clock readings after every round: every executed non-final round must satisfy 'continue', the final one must not — i.e. the number of rounds is the smallest satisfying the rule.",
   "trusted: the virtual counter (hooks H5 / H9: both Timer::Tsc and Timer::Os read it) is the only clock; the oracle's own floor((b-a)*10^12/f)",
   SIM + "discrete-event virtual clock with clock-fault injection; history check of the stop rule against a reference model on the logged readings", "§4.C04"),
 "C05": ("exploration",
   "seeded search over sample multisets that only come into existence through the loop (T threads, scripted clock incl. ties, zero and > 2^64 ps durations, allocation scripts, per-input counter values incl. near u64::MAX, overhead constants, zero-sample configurations); oracles: each stored duration recomputed from the logged readings; Stats compared with an independent integer order-statistics model (ties: any attaining sample); allocation/counter figures those of an attaining sample; compute_stats and the painted row (stdout captured at fd level) never panic and contain no NaN.",
   "trusted: f64 figures compared with 1e-9 relative tolerance; glyphs/format of the row are C18/C20 (not applicable)",
   SIM + "scripted clock / allocator / counter histories through the real loop; refinement of Stats against a reference order-statistics model", "§4.C05"),
 "C06": ("exploration",
   "seeded search over pool histories (issued by one caller, by different callers one after the other, or by 2-3 callers at the same time) x schedules x panic subsets x spurious wake-ups, running the real ThreadPool code under the dsim scheduler; oracles over the recorded history: exactly-once per index, thread identity, return-after-all-calls (also when broadcast unwinds), vector-clock happens-before at return, result slots (result type whose None is not the all-zero pattern), spawn conservation; in-run frame-liveness monitor stated on the caller's stack frames (a thread about to operate on memory of a returned broadcast call's frames is stopped before the operation). Sampling (evidence, not proof); SC interleavings with an HB audit instead of weak-memory execution.",
   "trusted: dsim's models of Mutex / sync_channel(0) / atomics / park-unpark / spawn (documented std semantics only), the C++20 release-sequence rules in the vector-clock audit, preemption only at shim operations and probes",
   SIM + "seeded schedule search + fault injection (task panics incl. a payload whose destructor panics, spurious park / condvar wake-ups, spurious compare_exchange_weak failures, starvation) with history oracles and happens-before audit", "§4.C06"),
 "C07": ("exploration",
   "same engine, longer growing/shrinking histories incl. concurrent callers; bounded liveness oracle: no deadlock state, no step-budget overrun, no abort, bounded completion after the last fault, every worker exits after pool drop; probes confirm the racy windows (zero found without parking, parked-and-woken, stale token, woke with count > 0) were hit.",
   "trusted: dsim's park/unpark token model and channel-disconnect model; liveness is bounded (20 000 scheduling steps per run), not unbounded",
   SIM + "seeded schedule search + fault injection with bounded-liveness oracle (deadlock / lost wake-up / worker leak detection)", "§4.C07"),
 "C08": ("exploration",
   "seeded search over T in 2..4 (..8 thorough) threads x 1-3 rounds x loop paths x schedules x panic plans (thread subset, phase gen|counter|benched|destructor, call index, optionally a second site); oracles over the global event order per round: all preparation and tally clears before any start timestamp, all end timestamps before any drop, per-thread allocation isolation, and termination with a panic on the caller (a deadlock is the violation) when any thread panics.",
   "trusted: dsim's Barrier model; hook H7 (tally_cleared probe)",
   SIM + "seeded schedule search + panic injection on thread subsets; global-order oracle over the recorded history, deadlock detection", "§4.C08"),
 "C09": ("fault_enumeration",
   "allocator sandwich Outer<AllocProfiler<Spy>> as the process allocator of a dedicated binary: every request of the process is checked on the fly (request == inner call, exactly one inner call, returned == inner result, no nested request); the grid method x size (0..isize::MAX) x alignment (1..4096) x inner result (pointer, null, moved) is enumerated completely in three thread phases (steady, first action of a fresh thread, TLS destructor during tear-down), plus seeded simulated runs with controlled thread life-cycles.",
   "trusted: Spy/Outer bookkeeping in destructor-free thread-locals; Linux thread-local path only (macOS pthread-key path not exercised)",
   SIM + "fault enumeration over scripted inner-allocator results (null, moved) and thread life-cycle phases; refinement against the identity model", "§4.C09"),
 "C10": ("exploration",
   "1..8 simulated threads each run a seeded script of allocator operations (sizes 0..2^40, shrink to 0, equal-size realloc, dealloc below the balance) through the real AllocProfiler, every operation a scheduling point; a reference tally model per thread is compared with every take / peek snapshot and the final state; a fresh thread's tally must be empty and never reflects another thread's operations.",
   "trusted: MockAlloc inner allocator; simulated threads are real OS threads so the tally is divan's real thread-local",
   SIM + "seeded interleaving of per-thread allocator scripts with a reference-model oracle at every snapshot", "§4.C10"),
 "C11": ("exploration",
   "every loop run checks each stored duration against floor((b-a)*10^12/f) (0 when b < a) on the raw logged readings, with frequencies, start values, forward/backward jumps and per-thread skew biased to the listed boundaries; monotonicity, additivity up to 1 ps per term and translation invariance asserted through the real conversion on consecutive readings; Duration -> ps where the loop consumes it; Timer::precision() run for real on uniform-step virtual clocks and compared with the step.",
   "trusted: samples (a, b, f), boundary-biased — the pure arithmetic over all of u64^3 is outside what this family decides; precision clause only where its stated precondition holds (0 < read_cost <= step, reads not phase-locked to the step)",
   SIM + "virtual clock with skew / jump / wrap-adjacent faults; history check of stored durations against the reference conversion", "§4.C11"),
 "C19": ("exploration",
   "tuned runs (sample_size unset) with per-iteration costs from far below to far above the precision (constant, growing, noisy), measured or overridden precision, max_time cutting tuning short; oracle = reference model of the doubling rule on the logged readings (size 2^k in round k, threshold floor(slowest/precision) > 100, earlier rounds discarded with their allocation and counter data, threshold round is sample #1).",
   "trusted: the virtual counter and hook H6 (precision reported to the oracle); costs scripted >= 1 tick/iteration",
   SIM + "scripted per-iteration cost histories on the virtual clock; refinement of the tuning loop against a reference model", "§4.C19"),
}

def chk(pid):
    cat, text, note, tech, ref = checks[pid]
    return {
      "property_id": pid,
      "quick_cmd": f"bin/check {pid} quick",
      "thorough_cmd": f"bin/check {pid} thorough",
      "evidence_file": f"/verif/evidence/{pid}.json",
      "replay_cmd_template": "bin/check replay {path}",
      "engine": "dsim",
      "level_claimed": {"category": cat, "text": text, "design_ref": ref},
      "level_note": note,
      "technique": tech,
    }

log = subprocess.check_output(["git","-C","/repo","log","--format=%H %s","4224f35..HEAD"]).decode().strip().split("\n")
m = {
 "version": 1,
 "setup_cmd": "cd /verif && CARGO_NET_OFFLINE=true cargo build --release --offline",
 "hooks": {
   "guard": "--cfg divan_verif",
   "enable": "checks build /repo/src/lib.rs through the shadow manifest /verif/shadow/divan/Cargo.toml (same package name and dependencies plus the dsim simulator) with RUSTFLAGS=--cfg divan_verif from /verif/.cargo/config.toml; /repo's own Cargo.toml dependencies and Cargo.lock stay untouched",
   "baseline_off_cmd": "cd /repo && cargo test --workspace --no-fail-fast --offline",
   "source_commits": [c.split()[0] for c in reversed(log) if "verif hook" in c],
   "add_only": True
 },
 "engines": [
   {"name":"dsim","path":"/verif/dsim","serves_properties":sorted(checks.keys()),
    "kind_free_text":"own deterministic simulator: real OS threads released one at a time by a seeded scheduler (random walk, PCT, starvation, run-to-block); drop-in std shim (atomics, Mutex, mpsc incl. rendezvous, park/unpark, Barrier, spawn, abort) with vector-clock happens-before audit; virtual TSC with stall / jump / skew faults; scripted allocator; fault plans; replay from recorded decisions; scenario + schedule minimisation"},
   {"name":"dv-alloc","path":"/verif/harness/src/bin/dv_alloc.rs","serves_properties":["C09"],
    "kind_free_text":"allocator sandwich Outer<AllocProfiler<Spy>> as #[global_allocator] with on-the-fly refinement checks and scripted inner results; grid enumeration + dsim-driven thread life-cycles"},
 ],
 "checks": [chk(p) for p in sorted(checks.keys())],
 "notes": "See DESIGN.md. Exit codes: 0 held, 1 violation (VIOLATION line + replay file), 2 harness error (never prints VIOLATION). VERIF_SEED seeds every random choice (default 1). Genuine defects found and repaired are listed in known_findings.json ('fixed:' entries; they suppress nothing). fix commits in /repo: " + "; ".join(c for c in reversed(log) if " fix:" in c),
 "not_applicable": [{"property_id":k,"reason":v} for k,v in sorted(na.items())]
}
json.dump(m, open("/verif/MANIFEST.json","w"), indent=1)
print("wrote MANIFEST.json with", len(m["checks"]), "checks")
