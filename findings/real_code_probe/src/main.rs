use std::time::Duration;
fn main() {
    let which = std::env::args().nth(1).unwrap_or_default();
    match which.as_str() {
        "zero" => {
            divan::Divan::default().sample_count(0).run_benches();
            println!("zero-sample run finished");
        }
        "maxtime0" => {
            divan::Divan::default().max_time(Duration::ZERO).run_benches();
            println!("max_time=0 run finished");
        }
        "partial" => {
            divan::Divan::default().sample_count(2).sample_size(1).run_benches();
            println!("partial-panic run finished");
        }
        _ => {}
    }
}
#[divan::bench]
fn plain() {}

#[divan::bench(threads = 2)]
fn partial_panic() {
    if std::thread::current().name().map_or(false, |n| n.starts_with("divan-")) {
        panic!("aux thread panics");
    }
}
