//! Real code, guard off: two identical benchmarks under a small `max_time`.
//! The first benchmark of the process also pays for the one-off measurement
//! of benchmarking overheads (`Timer::bench_overheads`, cached afterwards).
//! If that measurement is counted as benchmarking time, the first benchmark
//! records far fewer samples than the second.
use std::time::Duration;

fn main() {
    divan::Divan::default()
        .sample_size(1)
        .sample_count(1_000_000)
        .max_time(Duration::from_millis(std::env::args().nth(1).and_then(|a| a.parse().ok()).unwrap_or(1)))
        .run_benches();
}

#[divan::bench]
fn a_first() -> u64 {
    divan::black_box(1u64) + 1
}

#[divan::bench]
fn b_second() -> u64 {
    divan::black_box(1u64) + 1
}
