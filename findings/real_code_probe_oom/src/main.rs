// Run under an address-space limit, e.g. `(ulimit -v 8000000; ./probe3 1000000000)`:
// a huge sample_count together with a small max_time must simply stop at
// max_time; before the fix the up-front reservation aborted the process
// ("memory allocation of 16000000000 bytes failed").
use std::time::Duration;
fn main() {
    let n: u32 = std::env::args().nth(1).and_then(|s| s.parse().ok()).unwrap_or(4_000_000_000);
    divan::Divan::default().sample_count(n).sample_size(1).max_time(Duration::from_millis(100)).run_benches();
    println!("finished with sample_count = {n}");
}
#[divan::bench]
fn plain() {}
