#[global_allocator]
static ALLOC: divan::AllocProfiler = divan::AllocProfiler::system();

fn main() {
    // Requests the system allocator refuses; the program handles the error.
    for i in 0..4 {
        let mut v: Vec<u8> = Vec::new();
        let r = v.try_reserve_exact(isize::MAX as usize);
        println!("attempt {i}: {}", if r.is_err() { "allocation refused, handled" } else { "ok" });
    }
    println!("survived");
}
