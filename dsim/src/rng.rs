//! Small deterministic PRNG (splitmix64 seeding a xoshiro256**). No
//! dependencies, no global state: one `Rng` is one reproducible stream.

#[derive(Clone, Debug)]
pub struct Rng {
    s: [u64; 4],
}

#[inline]
pub fn splitmix64(state: &mut u64) -> u64 {
    *state = state.wrapping_add(0x9E37_79B9_7F4A_7C15);
    let mut z = *state;
    z = (z ^ (z >> 30)).wrapping_mul(0xBF58_476D_1CE4_E5B9);
    z = (z ^ (z >> 27)).wrapping_mul(0x94D0_49BB_1331_11EB);
    z ^ (z >> 31)
}

/// Mixes several integers into one seed (used to derive the per-run seed from
/// `(VERIF_SEED, property, run index)`).
pub fn mix(parts: &[u64]) -> u64 {
    let mut s = 0x243F_6A88_85A3_08D3u64;
    let mut out = 0u64;
    for &p in parts {
        s ^= p.wrapping_mul(0x9E37_79B9_7F4A_7C15);
        out = splitmix64(&mut s) ^ out.rotate_left(17);
    }
    splitmix64(&mut s) ^ out
}

impl Rng {
    pub fn new(seed: u64) -> Self {
        let mut sm = seed;
        let mut s = [0u64; 4];
        for v in &mut s {
            *v = splitmix64(&mut sm);
        }
        if s == [0; 4] {
            s[0] = 1;
        }
        Self { s }
    }

    #[inline]
    pub fn next_u64(&mut self) -> u64 {
        let result = self.s[1].wrapping_mul(5).rotate_left(7).wrapping_mul(9);
        let t = self.s[1] << 17;
        self.s[2] ^= self.s[0];
        self.s[3] ^= self.s[1];
        self.s[1] ^= self.s[2];
        self.s[0] ^= self.s[3];
        self.s[2] ^= t;
        self.s[3] = self.s[3].rotate_left(45);
        result
    }

    /// Uniform in `0..n` (`n > 0`).
    #[inline]
    pub fn below(&mut self, n: u64) -> u64 {
        debug_assert!(n > 0);
        // Multiply-shift; bias is negligible for the small ranges used here.
        ((self.next_u64() as u128 * n as u128) >> 64) as u64
    }

    /// Uniform in `lo..=hi`.
    #[inline]
    pub fn range(&mut self, lo: u64, hi: u64) -> u64 {
        debug_assert!(lo <= hi);
        if lo == 0 && hi == u64::MAX {
            return self.next_u64();
        }
        lo + self.below(hi - lo + 1)
    }

    #[inline]
    pub fn usize_below(&mut self, n: usize) -> usize {
        self.below(n as u64) as usize
    }

    /// `true` with probability `num/den`.
    #[inline]
    pub fn chance(&mut self, num: u64, den: u64) -> bool {
        self.below(den) < num
    }

    #[inline]
    pub fn f64(&mut self) -> f64 {
        (self.next_u64() >> 11) as f64 / (1u64 << 53) as f64
    }

    pub fn pick<'a, T>(&mut self, items: &'a [T]) -> &'a T {
        &items[self.usize_below(items.len())]
    }

    pub fn shuffle<T>(&mut self, items: &mut [T]) {
        for i in (1..items.len()).rev() {
            let j = self.usize_below(i + 1);
            items.swap(i, j);
        }
    }

    /// Derives an independent stream.
    pub fn fork(&mut self) -> Rng {
        Rng::new(self.next_u64())
    }
}
