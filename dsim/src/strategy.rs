//! Scheduling strategies. A strategy only ever chooses among *enabled*
//! threads; everything it draws comes from its own seeded `Rng`.

use crate::rng::Rng;

/// What the scheduler knows at a decision point.
pub struct Choice<'a> {
    /// Enabled thread ids, ascending.
    pub enabled: &'a [usize],
    /// The thread that just performed an operation (may not be enabled).
    pub current: usize,
    /// Running count of scheduling steps in this run.
    pub step: usize,
    /// Index of this decision among decisions with >= 2 enabled threads.
    pub decision_index: usize,
}

/// The canonical default: keep running the current thread, else the lowest
/// enabled tid. Replay deviations are expressed against this.
#[inline]
pub fn run_to_block(c: &Choice) -> usize {
    if c.enabled.contains(&c.current) {
        c.current
    } else {
        c.enabled[0]
    }
}

#[derive(Clone, Debug, PartialEq)]
pub enum StrategySpec {
    RunToBlock,
    /// Switch away from the running thread with probability `switch_permille/1000`.
    Random { switch_permille: u32 },
    /// PCT with `depth` priority change points over an estimated run length.
    Pct { depth: u32, est_len: u32 },
    /// `victim` runs only when nothing else can; others as `Random`.
    Starve { victim: usize, switch_permille: u32 },
    /// As `Random` until the run's `from_step`-th scheduling step; from then
    /// on `victim` runs only when nothing else can — one long preemption of
    /// one thread at an arbitrary point (the shape of most narrow-window
    /// races: a thread held up between two of its operations while the others
    /// run on).
    Stall { victim: usize, from_step: u32, switch_permille: u32 },
    /// Replay: explicit deviations `(decision_index, tid)` from run-to-block.
    Deviations { list: Vec<(usize, usize)> },
    /// Replay: the full recorded choice list; run-to-block once exhausted.
    Recorded { choices: Vec<u8> },
}

impl StrategySpec {
    pub fn name(&self) -> String {
        match self {
            StrategySpec::RunToBlock => "run_to_block".into(),
            StrategySpec::Random { switch_permille } => {
                format!("random({})", *switch_permille as f64 / 1000.0)
            }
            StrategySpec::Pct { depth, .. } => format!("pct({depth})"),
            StrategySpec::Starve { victim, .. } => format!("starve({victim})"),
            StrategySpec::Stall { victim, from_step, .. } => format!("stall({victim}@{from_step})"),
            StrategySpec::Deviations { list } => {
                format!("deviations({})", list.len())
            }
            StrategySpec::Recorded { choices } => {
                format!("recorded({})", choices.len())
            }
        }
    }

    pub fn family(&self) -> &'static str {
        match self {
            StrategySpec::RunToBlock => "run_to_block",
            StrategySpec::Random { .. } => "random",
            StrategySpec::Pct { .. } => "pct",
            StrategySpec::Starve { .. } => "starve",
            StrategySpec::Stall { .. } => "stall",
            StrategySpec::Deviations { .. } => "replay",
            StrategySpec::Recorded { .. } => "replay",
        }
    }

    /// Swarm choice of a strategy for one run.
    pub fn swarm(rng: &mut Rng, max_threads: usize, est_len: u32) -> Self {
        match rng.below(100) {
            0..=4 => StrategySpec::RunToBlock,
            5..=49 => StrategySpec::Random {
                switch_permille: *rng.pick(&[50, 100, 200, 350, 500, 750, 1000]),
            },
            50..=79 => StrategySpec::Pct {
                depth: rng.range(1, 3) as u32,
                est_len: est_len.max(8),
            },
            80..=89 => StrategySpec::Starve {
                victim: rng.usize_below(max_threads.max(1)),
                switch_permille: *rng.pick(&[100, 350, 750]),
            },
            _ => StrategySpec::Stall {
                victim: rng.usize_below(max_threads.max(1)),
                from_step: rng.below(est_len.max(8) as u64) as u32,
                switch_permille: *rng.pick(&[100, 350, 750]),
            },
        }
    }
}

pub(crate) enum Strategy {
    RunToBlock,
    Random { rng: Rng, switch_permille: u32 },
    Pct { rng: Rng, prio: Vec<i64>, change_points: Vec<usize>, next_low: i64 },
    Starve { rng: Rng, victim: usize, switch_permille: u32 },
    Stall { rng: Rng, victim: usize, from_step: usize, switch_permille: u32 },
    Deviations { list: Vec<(usize, usize)>, pos: usize },
    Recorded { choices: Vec<u8>, pos: usize },
}

/// Outcome of a pick; `Diverged` only arises on replay.
pub(crate) enum Pick {
    Tid(usize),
    Diverged { wanted: usize },
}

impl Strategy {
    pub fn new(spec: &StrategySpec, seed: u64) -> Self {
        let mut rng = Rng::new(seed ^ 0x5EED_5C4E_D01E_0001);
        match spec {
            StrategySpec::RunToBlock => Strategy::RunToBlock,
            StrategySpec::Random { switch_permille } => {
                Strategy::Random { rng, switch_permille: *switch_permille }
            }
            StrategySpec::Pct { depth, est_len } => {
                let mut change_points: Vec<usize> = (0..*depth)
                    .map(|_| rng.usize_below(*est_len as usize))
                    .collect();
                change_points.sort_unstable();
                Strategy::Pct { rng, prio: Vec::new(), change_points, next_low: -1 }
            }
            StrategySpec::Starve { victim, switch_permille } => Strategy::Starve {
                rng,
                victim: *victim,
                switch_permille: *switch_permille,
            },
            StrategySpec::Stall { victim, from_step, switch_permille } => Strategy::Stall {
                rng,
                victim: *victim,
                from_step: *from_step as usize,
                switch_permille: *switch_permille,
            },
            StrategySpec::Deviations { list } => {
                let mut list = list.clone();
                list.sort_unstable();
                Strategy::Deviations { list, pos: 0 }
            }
            StrategySpec::Recorded { choices } => {
                Strategy::Recorded { choices: choices.clone(), pos: 0 }
            }
        }
    }

    /// Called only when `enabled.len() >= 2`.
    pub fn pick(&mut self, c: &Choice) -> Pick {
        match self {
            Strategy::RunToBlock => Pick::Tid(run_to_block(c)),
            Strategy::Random { rng, switch_permille } => {
                Pick::Tid(random_pick(rng, *switch_permille, c, None))
            }
            Strategy::Starve { rng, victim, switch_permille } => {
                Pick::Tid(random_pick(rng, *switch_permille, c, Some(*victim)))
            }
            Strategy::Stall { rng, victim, from_step, switch_permille } => {
                let v = if c.step >= *from_step { Some(*victim) } else { None };
                Pick::Tid(random_pick(rng, *switch_permille, c, v))
            }
            Strategy::Pct { rng, prio, change_points, next_low } => {
                let max_tid = *c.enabled.last().unwrap().max(&c.current);
                while prio.len() <= max_tid {
                    // Random distinct-ish high priorities for new threads.
                    prio.push(1_000 + rng.below(1_000_000) as i64);
                }
                // Demote the running thread at each change point.
                while let Some(&cp) = change_points.first() {
                    if c.step >= cp {
                        change_points.remove(0);
                        prio[c.current] = *next_low;
                        *next_low -= 1;
                    } else {
                        break;
                    }
                }
                let best = c
                    .enabled
                    .iter()
                    .copied()
                    .max_by_key(|&t| (prio[t], std::cmp::Reverse(t)))
                    .unwrap();
                Pick::Tid(best)
            }
            Strategy::Deviations { list, pos } => {
                // Skip deviations whose decision index has passed.
                while *pos < list.len() && list[*pos].0 < c.decision_index {
                    *pos += 1;
                }
                if *pos < list.len() && list[*pos].0 == c.decision_index {
                    let want = list[*pos].1;
                    *pos += 1;
                    if c.enabled.contains(&want) {
                        return Pick::Tid(want);
                    }
                    // A deviation that no longer applies falls back to the
                    // default: shrinking relies on this being total.
                }
                Pick::Tid(run_to_block(c))
            }
            Strategy::Recorded { choices, pos } => {
                if *pos < choices.len() {
                    let want = choices[*pos] as usize;
                    *pos += 1;
                    if c.enabled.contains(&want) {
                        Pick::Tid(want)
                    } else {
                        Pick::Diverged { wanted: want }
                    }
                } else {
                    Pick::Tid(run_to_block(c))
                }
            }
        }
    }
}

fn random_pick(
    rng: &mut Rng,
    switch_permille: u32,
    c: &Choice,
    victim: Option<usize>,
) -> usize {
    // Candidates: everything but the starved victim, unless it is alone.
    let mut cands: [usize; crate::MAX_THREADS] = [0; crate::MAX_THREADS];
    let mut n = 0;
    for &t in c.enabled {
        if Some(t) != victim {
            cands[n] = t;
            n += 1;
        }
    }
    if n == 0 {
        return c.enabled[0];
    }
    let cands = &cands[..n];
    let cur_ok = cands.contains(&c.current);
    if cur_ok && (n == 1 || !rng.chance(switch_permille as u64, 1000)) {
        return c.current;
    }
    if cur_ok {
        // Switch: uniformly among the others.
        let k = rng.usize_below(n - 1);
        let mut i = 0;
        for &t in cands {
            if t == c.current {
                continue;
            }
            if i == k {
                return t;
            }
            i += 1;
        }
        unreachable!()
    } else {
        cands[rng.usize_below(n)]
    }
}
