//! The virtual counter. Under a live simulation this is the only clock the
//! simulated code reads (hook H5 in `TscTimestamp::start/end`).

use crate::{
    event::{Ev, Phase, Which},
    sim::{self, Step},
};

pub use crate::event::Which as Read;

/// Reads the virtual counter; `None` when the calling thread is not
/// simulated (the hook then falls through to the real counter). A scheduling
/// point.
#[inline]
pub fn read(which: Which) -> Option<u64> {
    // The end read closes the thread's timed-section window before anything
    // else happens; the start read opens it as its very last action.
    let foreign = if which == Which::End { crate::window::close() } else { (0, 0) };
    let scope = crate::window::Scope::enter();
    let (s, me) = sim::ctx()?;
    {
        // While `Timer::precision()` measures, only the measuring thread is
        // of interest: no scheduling point, no step-budget consumption.
        let mut st = s.lock();
        if st.clock.phase == Phase::Precision {
            return Some(st.read_clock(me, which));
        }
    }
    let raw = s.op(me, |st| {
        let raw = st.read_clock(me, which);
        if foreign.0 > 0 {
            st.log(
                me,
                Ev::User(crate::event::UserEv::Mark {
                    tag: crate::window::FOREIGN_ALLOC_TAG,
                    a: foreign.0 as u64,
                    b: foreign.1,
                }),
            );
        }
        Step::Done(raw)
    });
    drop(scope);
    if which == Which::Start {
        crate::window::open();
    }
    Some(raw)
}

#[inline]
pub fn read_start() -> Option<u64> {
    read(Which::Start)
}

#[inline]
pub fn read_end() -> Option<u64> {
    read(Which::End)
}

/// `true` iff the calling thread runs under a simulation.
#[inline]
pub fn active() -> bool {
    sim::active()
}

/// The configured counter frequency.
pub fn frequency() -> Option<u64> {
    let (s, _) = sim::ctx()?;
    Some(s.lock().clock.cfg.frequency)
}

/// Precision override (picoseconds), if the run configured one.
pub fn precision_override() -> Option<u128> {
    let (s, _) = sim::ctx()?;
    s.lock().precision_override
}

/// Brackets `Timer::precision()` so that oracles can tell precision reads
/// from loop reads.
pub fn precision_begin() {
    if let Some((s, me)) = sim::ctx() {
        let mut st = s.lock();
        st.clock.phase = Phase::Precision;
        st.tick(me);
        st.log(me, Ev::PrecisionBegin);
    }
}

/// Reports the precision `Timer::precision()` is about to return.
pub fn precision_end(ps: u128) {
    if let Some((s, me)) = sim::ctx() {
        let mut st = s.lock();
        st.clock.phase = Phase::Loop;
        st.tick(me);
        st.log(me, Ev::PrecisionEnd { ps });
    }
}

/// Simulator-provided benchmarking overheads in picoseconds:
/// `[sample_loop, tally_alloc, tally_dealloc, tally_realloc]`.
pub fn overheads() -> Option<[u128; 4]> {
    let _internal = crate::window::Scope::enter();
    let (s, me) = sim::ctx()?;
    let mut st = s.lock();
    if !st.overheads_measured {
        // The first request of a run pays for the measurement, as the first
        // benchmark of a process does.
        st.overheads_measured = true;
        let ticks = st.overhead_measure_ticks;
        if ticks > 0 {
            st.fire("slow_overhead_measurement");
            // `a`: how far the clock really moved (a stalled clock does not).
            let before = st.clock.now;
            st.advance(ticks);
            let moved = st.clock.now - before;
            st.tick(me);
            st.log(
                me,
                Ev::User(crate::event::UserEv::Mark { tag: OVERHEADS_MEASURED_TAG, a: moved, b: ticks }),
            );
        }
    }
    Some(st.overheads)
}

/// `UserEv::Mark` tag: the one-off overhead measurement ran here and moved
/// the virtual clock by `a` ticks (`b`: the configured cost).
pub const OVERHEADS_MEASURED_TAG: u32 = 0x0EAD;

/// Spends virtual time (harness cost scripts). Not a scheduling point.
pub fn spend(ticks: u64) {
    if let Some((s, _)) = sim::ctx() {
        s.lock().advance(ticks);
    }
}

/// Current virtual time in ticks since the start value.
pub fn now_ticks() -> Option<u64> {
    let (s, _) = sim::ctx()?;
    Some(s.lock().clock.now)
}
