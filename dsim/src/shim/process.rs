pub use ::std::process::*;

use crate::{event::Ev, sim};

/// `std::process::abort`. Inside a simulated run an abort is always a
/// finding: it is recorded and the run stops; the process lives on.
pub fn abort() -> ! {
    if let Some((s, me)) = sim::ctx() {
        {
            let mut st = s.lock();
            st.tick(me);
            st.log(me, Ev::Abort);
        }
        s.fail_abort(me)
    } else {
        ::std::process::abort()
    }
}
