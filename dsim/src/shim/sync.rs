//! `std::sync` with modelled `Mutex`, `Condvar`, `Barrier`, atomics and
//! `mpsc` channels. Semantics are the documented std semantics and nothing
//! more (see DESIGN.md, appendix D).

pub use ::std::sync::*;

use ::std::sync as real;

use crate::{
    event::{AtomOp, Ev, Ord8},
    sim::{self, Meta, Obj, State, Step, Wait},
    vclock::VClock,
};

// ===========================================================================
// Atomics
// ===========================================================================

pub mod atomic {
    pub use ::std::sync::atomic::*;

    use ::std::sync::atomic as real;

    use super::*;

    /// Applies the C++20 release/acquire rules to the clocks.
    pub(super) fn hb_atomic(st: &mut State, me: usize, obj: u32, kind: AtomOp, ord: Ord8) {
        st.tick(me);
        let Obj::Atomic { rel } = &mut st.objects[obj as usize] else {
            unreachable!("object {obj} is not an atomic")
        };
        let t = &mut st.threads[me];
        if kind != AtomOp::Store {
            if ord.acquires() {
                t.vc.join(rel);
            } else {
                t.pending_acq.join(rel);
            }
        }
        match kind {
            AtomOp::Store => {
                // A store starts a new release sequence.
                *rel = if ord.releases() { t.vc } else { t.fence_rel };
            }
            AtomOp::Rmw => {
                // An RMW continues the release sequence it reads from.
                if ord.releases() {
                    rel.join(&t.vc);
                } else {
                    let f = t.fence_rel;
                    rel.join(&f);
                }
            }
            AtomOp::Load | AtomOp::CasFail => {}
        }
    }

    /// One atomic operation: a scheduling point in a simulation, the plain
    /// real operation otherwise. `real` returns `(result, kind, ordering
    /// that applied, old value, new value)`.
    #[inline]
    pub(super) fn atomic_op<R>(
        meta: &Meta,
        addr: usize,
        real: impl FnOnce() -> (R, AtomOp, Ordering, u64, u64),
    ) -> R {
        match sim::ctx() {
            None => real().0,
            Some((s, me)) => {
                s.pre_touch(me, addr);
                let mut real = Some(real);
                s.op(me, |st| {
                    let obj = meta.get(st, s.epoch, || Obj::Atomic { rel: VClock::ZERO });
                    let (r, kind, ord, old, new) = (real.take().unwrap())();
                    let ord = Ord8::from_std(ord);
                    hb_atomic(st, me, obj, kind, ord);
                    st.touch(obj, me, kind as u64);
                    st.log(me, Ev::Atomic { obj, addr, op: kind, ord, old, new });
                    Step::Done(r)
                })
            }
        }
    }

    /// `std::sync::atomic::fence`.
    pub fn fence(order: Ordering) {
        real::fence(order);
        if let Some((s, me)) = sim::ctx() {
            s.op(me, |st| {
                st.tick(me);
                let ord = Ord8::from_std(order);
                let t = &mut st.threads[me];
                if ord.acquires() {
                    let p = t.pending_acq;
                    t.vc.join(&p);
                }
                if ord.releases() {
                    t.fence_rel = t.vc;
                }
                st.log(me, Ev::Fence { ord });
                Step::Done(())
            })
        }
    }

    macro_rules! atomic_int {
        ($name:ident, $t:ty) => {
            pub struct $name {
                meta: Meta,
                v: real::$name,
            }

            impl $name {
                #[inline]
                pub const fn new(v: $t) -> Self {
                    Self { meta: Meta::new(), v: real::$name::new(v) }
                }

                #[inline]
                fn addr(&self) -> usize {
                    self as *const Self as usize
                }

                pub fn get_mut(&mut self) -> &mut $t {
                    self.v.get_mut()
                }

                pub fn into_inner(self) -> $t {
                    self.v.into_inner()
                }

                pub fn as_ptr(&self) -> *mut $t {
                    self.v.as_ptr()
                }

                pub fn load(&self, order: Ordering) -> $t {
                    atomic_op(&self.meta, self.addr(), || {
                        let v = self.v.load(order);
                        (v, AtomOp::Load, order, v as u64, v as u64)
                    })
                }

                pub fn store(&self, val: $t, order: Ordering) {
                    atomic_op(&self.meta, self.addr(), || {
                        let old = self.v.load(Ordering::Relaxed);
                        self.v.store(val, order);
                        ((), AtomOp::Store, order, old as u64, val as u64)
                    })
                }

                pub fn swap(&self, val: $t, order: Ordering) -> $t {
                    atomic_op(&self.meta, self.addr(), || {
                        let old = self.v.swap(val, order);
                        (old, AtomOp::Rmw, order, old as u64, val as u64)
                    })
                }

                pub fn compare_exchange(
                    &self,
                    current: $t,
                    new: $t,
                    success: Ordering,
                    failure: Ordering,
                ) -> Result<$t, $t> {
                    atomic_op(&self.meta, self.addr(), || {
                        match self.v.compare_exchange(current, new, success, failure) {
                            Ok(old) => (Ok(old), AtomOp::Rmw, success, old as u64, new as u64),
                            Err(old) => (Err(old), AtomOp::CasFail, failure, old as u64, old as u64),
                        }
                    })
                }

                pub fn compare_exchange_weak(
                    &self,
                    current: $t,
                    new: $t,
                    success: Ordering,
                    failure: Ordering,
                ) -> Result<$t, $t> {
                    // Spurious failure is a fault the plan may inject.
                    if let Some((s, _)) = sim::ctx() {
                        let inject = {
                            let mut st = s.lock();
                            let k = st.cas_weak_calls;
                            st.cas_weak_calls += 1;
                            if let Some(p) = st.faults.cas_weak_fail.iter().position(|&i| i == k) {
                                st.faults.cas_weak_fail.remove(p);
                                st.fire("cas_weak_spurious_fail");
                                true
                            } else {
                                false
                            }
                        };
                        if inject {
                            return atomic_op(&self.meta, self.addr(), || {
                                let old = self.v.load(failure);
                                (Err(old), AtomOp::CasFail, failure, old as u64, old as u64)
                            });
                        }
                    }
                    self.compare_exchange(current, new, success, failure)
                }

                pub fn fetch_update<F>(
                    &self,
                    set_order: Ordering,
                    fetch_order: Ordering,
                    mut f: F,
                ) -> Result<$t, $t>
                where
                    F: FnMut($t) -> Option<$t>,
                {
                    let mut prev = self.load(fetch_order);
                    while let Some(next) = f(prev) {
                        match self.compare_exchange_weak(prev, next, set_order, fetch_order) {
                            x @ Ok(_) => return x,
                            Err(next_prev) => prev = next_prev,
                        }
                    }
                    Err(prev)
                }

                atomic_int!(@rmw $t, fetch_add, wrapping_add);
                atomic_int!(@rmw $t, fetch_sub, wrapping_sub);
                atomic_int!(@rmwf $t, fetch_and, |a: $t, b: $t| a & b);
                atomic_int!(@rmwf $t, fetch_or, |a: $t, b: $t| a | b);
                atomic_int!(@rmwf $t, fetch_xor, |a: $t, b: $t| a ^ b);
                atomic_int!(@rmwf $t, fetch_nand, |a: $t, b: $t| !(a & b));
                atomic_int!(@rmwf $t, fetch_max, |a: $t, b: $t| a.max(b));
                atomic_int!(@rmwf $t, fetch_min, |a: $t, b: $t| a.min(b));
            }

            impl Default for $name {
                fn default() -> Self {
                    Self::new(Default::default())
                }
            }

            impl From<$t> for $name {
                fn from(v: $t) -> Self {
                    Self::new(v)
                }
            }

            impl ::std::fmt::Debug for $name {
                fn fmt(&self, f: &mut ::std::fmt::Formatter<'_>) -> ::std::fmt::Result {
                    ::std::fmt::Debug::fmt(&self.v, f)
                }
            }
        };
        (@rmw $t:ty, $method:ident, $wrapping:ident) => {
            pub fn $method(&self, val: $t, order: Ordering) -> $t {
                atomic_op(&self.meta, self.addr(), || {
                    let old = self.v.$method(val, order);
                    (old, AtomOp::Rmw, order, old as u64, old.$wrapping(val) as u64)
                })
            }
        };
        (@rmwf $t:ty, $method:ident, $f:expr) => {
            pub fn $method(&self, val: $t, order: Ordering) -> $t {
                atomic_op(&self.meta, self.addr(), || {
                    let old = self.v.$method(val, order);
                    (old, AtomOp::Rmw, order, old as u64, ($f)(old, val) as u64)
                })
            }
        };
    }

    atomic_int!(AtomicUsize, usize);
    atomic_int!(AtomicIsize, isize);
    atomic_int!(AtomicU8, u8);
    atomic_int!(AtomicU16, u16);
    atomic_int!(AtomicU32, u32);
    atomic_int!(AtomicU64, u64);
    atomic_int!(AtomicI8, i8);
    atomic_int!(AtomicI16, i16);
    atomic_int!(AtomicI32, i32);
    atomic_int!(AtomicI64, i64);

    pub struct AtomicBool {
        meta: Meta,
        v: real::AtomicBool,
    }

    impl AtomicBool {
        #[inline]
        pub const fn new(v: bool) -> Self {
            Self { meta: Meta::new(), v: real::AtomicBool::new(v) }
        }
        #[inline]
        fn addr(&self) -> usize {
            self as *const Self as usize
        }
        pub fn get_mut(&mut self) -> &mut bool {
            self.v.get_mut()
        }
        pub fn into_inner(self) -> bool {
            self.v.into_inner()
        }
        pub fn load(&self, order: Ordering) -> bool {
            atomic_op(&self.meta, self.addr(), || {
                let v = self.v.load(order);
                (v, AtomOp::Load, order, v as u64, v as u64)
            })
        }
        pub fn store(&self, val: bool, order: Ordering) {
            atomic_op(&self.meta, self.addr(), || {
                let old = self.v.load(Ordering::Relaxed);
                self.v.store(val, order);
                ((), AtomOp::Store, order, old as u64, val as u64)
            })
        }
        pub fn swap(&self, val: bool, order: Ordering) -> bool {
            atomic_op(&self.meta, self.addr(), || {
                let old = self.v.swap(val, order);
                (old, AtomOp::Rmw, order, old as u64, val as u64)
            })
        }
        pub fn compare_exchange(
            &self,
            current: bool,
            new: bool,
            success: Ordering,
            failure: Ordering,
        ) -> Result<bool, bool> {
            atomic_op(&self.meta, self.addr(), || {
                match self.v.compare_exchange(current, new, success, failure) {
                    Ok(old) => (Ok(old), AtomOp::Rmw, success, old as u64, new as u64),
                    Err(old) => (Err(old), AtomOp::CasFail, failure, old as u64, old as u64),
                }
            })
        }
        pub fn compare_exchange_weak(
            &self,
            current: bool,
            new: bool,
            success: Ordering,
            failure: Ordering,
        ) -> Result<bool, bool> {
            self.compare_exchange(current, new, success, failure)
        }
        pub fn fetch_and(&self, val: bool, order: Ordering) -> bool {
            atomic_op(&self.meta, self.addr(), || {
                let old = self.v.fetch_and(val, order);
                (old, AtomOp::Rmw, order, old as u64, (old & val) as u64)
            })
        }
        pub fn fetch_or(&self, val: bool, order: Ordering) -> bool {
            atomic_op(&self.meta, self.addr(), || {
                let old = self.v.fetch_or(val, order);
                (old, AtomOp::Rmw, order, old as u64, (old | val) as u64)
            })
        }
        pub fn fetch_xor(&self, val: bool, order: Ordering) -> bool {
            atomic_op(&self.meta, self.addr(), || {
                let old = self.v.fetch_xor(val, order);
                (old, AtomOp::Rmw, order, old as u64, (old ^ val) as u64)
            })
        }
        pub fn fetch_nand(&self, val: bool, order: Ordering) -> bool {
            atomic_op(&self.meta, self.addr(), || {
                let old = self.v.fetch_nand(val, order);
                (old, AtomOp::Rmw, order, old as u64, !(old & val) as u64)
            })
        }
    }

    impl Default for AtomicBool {
        fn default() -> Self {
            Self::new(false)
        }
    }

    impl From<bool> for AtomicBool {
        fn from(v: bool) -> Self {
            Self::new(v)
        }
    }

    impl ::std::fmt::Debug for AtomicBool {
        fn fmt(&self, f: &mut ::std::fmt::Formatter<'_>) -> ::std::fmt::Result {
            ::std::fmt::Debug::fmt(&self.v, f)
        }
    }

    pub struct AtomicPtr<T> {
        meta: Meta,
        v: real::AtomicPtr<T>,
    }

    impl<T> AtomicPtr<T> {
        #[inline]
        pub const fn new(p: *mut T) -> Self {
            Self { meta: Meta::new(), v: real::AtomicPtr::new(p) }
        }
        #[inline]
        fn addr(&self) -> usize {
            self as *const Self as usize
        }
        pub fn get_mut(&mut self) -> &mut *mut T {
            self.v.get_mut()
        }
        pub fn into_inner(self) -> *mut T {
            self.v.into_inner()
        }
        pub fn load(&self, order: Ordering) -> *mut T {
            atomic_op(&self.meta, self.addr(), || {
                let v = self.v.load(order);
                (v, AtomOp::Load, order, 0, 0)
            })
        }
        pub fn store(&self, val: *mut T, order: Ordering) {
            atomic_op(&self.meta, self.addr(), || {
                self.v.store(val, order);
                ((), AtomOp::Store, order, 0, 0)
            })
        }
        pub fn swap(&self, val: *mut T, order: Ordering) -> *mut T {
            atomic_op(&self.meta, self.addr(), || {
                let old = self.v.swap(val, order);
                (old, AtomOp::Rmw, order, 0, 0)
            })
        }
        pub fn compare_exchange(
            &self,
            current: *mut T,
            new: *mut T,
            success: Ordering,
            failure: Ordering,
        ) -> Result<*mut T, *mut T> {
            atomic_op(&self.meta, self.addr(), || {
                match self.v.compare_exchange(current, new, success, failure) {
                    Ok(old) => (Ok(old), AtomOp::Rmw, success, 0, 0),
                    Err(old) => (Err(old), AtomOp::CasFail, failure, 0, 0),
                }
            })
        }
        pub fn compare_exchange_weak(
            &self,
            current: *mut T,
            new: *mut T,
            success: Ordering,
            failure: Ordering,
        ) -> Result<*mut T, *mut T> {
            self.compare_exchange(current, new, success, failure)
        }
    }

    impl<T> Default for AtomicPtr<T> {
        fn default() -> Self {
            Self::new(::std::ptr::null_mut())
        }
    }

    impl<T> ::std::fmt::Debug for AtomicPtr<T> {
        fn fmt(&self, f: &mut ::std::fmt::Formatter<'_>) -> ::std::fmt::Result {
            ::std::fmt::Debug::fmt(&self.v, f)
        }
    }
}

// ===========================================================================
// Mutex
// ===========================================================================

pub struct Mutex<T: ?Sized> {
    meta: Meta,
    inner: real::Mutex<T>,
}

pub struct MutexGuard<'a, T: ?Sized + 'a> {
    lock: &'a Mutex<T>,
    inner: Option<real::MutexGuard<'a, T>>,
}

impl<T> Mutex<T> {
    #[inline]
    pub const fn new(t: T) -> Self {
        Self { meta: Meta::new(), inner: real::Mutex::new(t) }
    }

    pub fn into_inner(self) -> LockResult<T> {
        self.inner.into_inner()
    }
}

impl<T: ?Sized> Mutex<T> {
    fn wrap<'a>(
        &'a self,
        r: LockResult<real::MutexGuard<'a, T>>,
    ) -> LockResult<MutexGuard<'a, T>> {
        match r {
            Ok(g) => Ok(MutexGuard { lock: self, inner: Some(g) }),
            Err(p) => Err(PoisonError::new(MutexGuard {
                lock: self,
                inner: Some(p.into_inner()),
            })),
        }
    }

    fn model_obj(&self, st: &mut State, epoch: u32) -> u32 {
        self.meta.get(st, epoch, || Obj::Mutex { owner: None, vc: VClock::ZERO })
    }

    pub fn lock(&self) -> LockResult<MutexGuard<'_, T>> {
        if let Some((s, me)) = sim::ctx() {
            s.op(me, |st| {
                let obj = self.model_obj(st, s.epoch);
                let Obj::Mutex { owner, vc } = &mut st.objects[obj as usize] else {
                    unreachable!()
                };
                if owner.is_some() {
                    return Step::Block(Wait::Mutex(obj));
                }
                *owner = Some(me);
                let vc = *vc;
                st.threads[me].vc.join(&vc);
                st.tick(me);
                st.touch(obj, me, 1);
                st.log(me, Ev::Lock { obj });
                Step::Done(())
            });
            // The model granted exclusivity, so this cannot block.
            self.wrap(self.inner.lock())
        } else {
            self.wrap(self.inner.lock())
        }
    }

    pub fn try_lock(&self) -> TryLockResult<MutexGuard<'_, T>> {
        if let Some((s, me)) = sim::ctx() {
            let got = s.op(me, |st| {
                let obj = self.model_obj(st, s.epoch);
                let Obj::Mutex { owner, vc } = &mut st.objects[obj as usize] else {
                    unreachable!()
                };
                st.threads[me].vc.tick(me);
                if owner.is_some() {
                    st.log(me, Ev::TryLockFail { obj });
                    return Step::Done(false);
                }
                *owner = Some(me);
                let vc = *vc;
                st.threads[me].vc.join(&vc);
                st.touch(obj, me, 1);
                st.log(me, Ev::Lock { obj });
                Step::Done(true)
            });
            if !got {
                return Err(TryLockError::WouldBlock);
            }
            match self.wrap(self.inner.lock()) {
                Ok(g) => Ok(g),
                Err(p) => Err(TryLockError::Poisoned(p)),
            }
        } else {
            match self.inner.try_lock() {
                Ok(g) => Ok(MutexGuard { lock: self, inner: Some(g) }),
                Err(TryLockError::WouldBlock) => Err(TryLockError::WouldBlock),
                Err(TryLockError::Poisoned(p)) => {
                    Err(TryLockError::Poisoned(PoisonError::new(MutexGuard {
                        lock: self,
                        inner: Some(p.into_inner()),
                    })))
                }
            }
        }
    }

    pub fn is_poisoned(&self) -> bool {
        self.inner.is_poisoned()
    }

    pub fn clear_poison(&self) {
        self.inner.clear_poison()
    }

    pub fn get_mut(&mut self) -> LockResult<&mut T> {
        self.inner.get_mut()
    }

    fn model_unlock(&self) {
        if let Some((s, me)) = sim::ctx() {
            s.op(me, |st| {
                let obj = self.model_obj(st, s.epoch);
                st.tick(me);
                let tvc = st.threads[me].vc;
                let Obj::Mutex { owner, vc } = &mut st.objects[obj as usize] else {
                    unreachable!()
                };
                if *owner == Some(me) {
                    *owner = None;
                    *vc = tvc;
                }
                st.touch(obj, me, 2);
                st.log(me, Ev::Unlock { obj });
                Step::Done(())
            })
        }
    }
}

impl<T: Default> Default for Mutex<T> {
    fn default() -> Self {
        Self::new(T::default())
    }
}

impl<T> From<T> for Mutex<T> {
    fn from(t: T) -> Self {
        Self::new(t)
    }
}

impl<T: ?Sized + ::std::fmt::Debug> ::std::fmt::Debug for Mutex<T> {
    fn fmt(&self, f: &mut ::std::fmt::Formatter<'_>) -> ::std::fmt::Result {
        ::std::fmt::Debug::fmt(&self.inner, f)
    }
}

impl<T: ?Sized> ::std::ops::Deref for MutexGuard<'_, T> {
    type Target = T;
    #[inline]
    fn deref(&self) -> &T {
        self.inner.as_ref().unwrap()
    }
}

impl<T: ?Sized> ::std::ops::DerefMut for MutexGuard<'_, T> {
    #[inline]
    fn deref_mut(&mut self) -> &mut T {
        self.inner.as_mut().unwrap()
    }
}

impl<T: ?Sized> Drop for MutexGuard<'_, T> {
    fn drop(&mut self) {
        // Real guard first: it records poisoning if this thread is panicking.
        if self.inner.take().is_some() {
            self.lock.model_unlock();
        }
    }
}

impl<T: ?Sized + ::std::fmt::Debug> ::std::fmt::Debug for MutexGuard<'_, T> {
    fn fmt(&self, f: &mut ::std::fmt::Formatter<'_>) -> ::std::fmt::Result {
        ::std::fmt::Debug::fmt(&**self, f)
    }
}

// ===========================================================================
// Condvar
// ===========================================================================

/// `std`'s result type has no public constructor.
#[derive(Debug, PartialEq, Eq, Copy, Clone)]
pub struct WaitTimeoutResult(bool);

impl WaitTimeoutResult {
    pub fn timed_out(&self) -> bool {
        self.0
    }
}

pub struct Condvar {
    meta: Meta,
    inner: real::Condvar,
}

impl Condvar {
    pub const fn new() -> Self {
        Self { meta: Meta::new(), inner: real::Condvar::new() }
    }

    fn model_obj(&self, st: &mut State, epoch: u32) -> u32 {
        self.meta.get(st, epoch, || Obj::Cond {
            next_ticket: 0,
            waiting: Vec::new(),
            notified: Vec::new(),
            vc: VClock::ZERO,
        })
    }

    pub fn wait<'a, T>(&self, mut guard: MutexGuard<'a, T>) -> LockResult<MutexGuard<'a, T>> {
        if let Some((s, me)) = sim::ctx() {
            let mutex = guard.lock;
            // Register as a waiter, then release the mutex (atomically with
            // respect to other simulated threads: no scheduling point between).
            let (obj, ticket) = {
                let mut st = s.lock();
                let obj = self.model_obj(&mut st, s.epoch);
                let Obj::Cond { next_ticket, waiting, .. } = &mut st.objects[obj as usize] else {
                    unreachable!()
                };
                let t = *next_ticket;
                *next_ticket += 1;
                waiting.push(t);
                st.tick(me);
                st.log(me, Ev::CondWait { obj });
                (obj, t)
            };
            drop(guard); // real unlock + model unlock (scheduling point)
            let mut first = true;
            s.op(me, |st| {
                // Spurious wake-ups are legal for a condition variable: the
                // fault plan's "k-th blocking wait of thread t returns
                // without a wake-up" covers `park` and `Condvar::wait` alike.
                if first {
                    first = false;
                    st.threads[me].park_calls += 1;
                    let k = st.threads[me].park_calls - 1;
                    let pending = {
                        let Obj::Cond { notified, .. } = &st.objects[obj as usize] else { unreachable!() };
                        notified.contains(&ticket)
                    };
                    if !pending {
                        if let Some(pos) = st.faults.spurious_parks.iter().position(|&(t, i)| t == me && i == k) {
                            st.faults.spurious_parks.remove(pos);
                            st.fire("spurious_condvar_wake");
                            let Obj::Cond { waiting, .. } = &mut st.objects[obj as usize] else { unreachable!() };
                            waiting.retain(|&t| t != ticket);
                            st.threads[me].yielded = true;
                            return Step::Done(());
                        }
                    }
                }
                let Obj::Cond { notified, vc, .. } = &mut st.objects[obj as usize] else {
                    unreachable!()
                };
                if let Some(p) = notified.iter().position(|&t| t == ticket) {
                    notified.remove(p);
                    let vc = *vc;
                    st.threads[me].vc.join(&vc);
                    Step::Done(())
                } else {
                    Step::Block(Wait::Cond(obj, ticket))
                }
            });
            mutex.lock()
        } else {
            let lock = guard.lock;
            let inner = guard.inner.take().unwrap();
            ::std::mem::forget(guard);
            match self.inner.wait(inner) {
                Ok(g) => Ok(MutexGuard { lock, inner: Some(g) }),
                Err(p) => Err(PoisonError::new(MutexGuard {
                    lock,
                    inner: Some(p.into_inner()),
                })),
            }
        }
    }

    /// Simulated threads have no timers: a timed wait that finds no
    /// notification pending gives the other threads a turn (a scheduling
    /// point with the yield flag set) and then reports a time-out — unless a
    /// notification arrived in between. A legal behaviour of the real
    /// primitive for every duration (time-outs may be arbitrarily early with
    /// respect to other threads' progress).
    pub fn wait_timeout<'a, T>(
        &self,
        mut guard: MutexGuard<'a, T>,
        dur: ::std::time::Duration,
    ) -> LockResult<(MutexGuard<'a, T>, WaitTimeoutResult)> {
        if let Some((s, me)) = sim::ctx() {
            let mutex = guard.lock;
            let (obj, ticket) = {
                let mut st = s.lock();
                let obj = self.model_obj(&mut st, s.epoch);
                let Obj::Cond { next_ticket, waiting, .. } = &mut st.objects[obj as usize] else {
                    unreachable!()
                };
                let t = *next_ticket;
                *next_ticket += 1;
                waiting.push(t);
                st.tick(me);
                st.log(me, Ev::CondWait { obj });
                (obj, t)
            };
            drop(guard);
            let timed_out = s.op(me, |st| {
                let Obj::Cond { notified, waiting, vc, .. } = &mut st.objects[obj as usize] else {
                    unreachable!()
                };
                if let Some(p) = notified.iter().position(|&t| t == ticket) {
                    notified.remove(p);
                    let vc = *vc;
                    st.threads[me].vc.join(&vc);
                    Step::Done(false)
                } else {
                    waiting.retain(|&t| t != ticket);
                    st.threads[me].yielded = true;
                    Step::Done(true)
                }
            });
            match mutex.lock() {
                Ok(g) => Ok((g, WaitTimeoutResult(timed_out))),
                Err(p) => Err(PoisonError::new((p.into_inner(), WaitTimeoutResult(timed_out)))),
            }
        } else {
            let lock = guard.lock;
            let inner = guard.inner.take().unwrap();
            ::std::mem::forget(guard);
            match self.inner.wait_timeout(inner, dur) {
                Ok((g, r)) => Ok((MutexGuard { lock, inner: Some(g) }, WaitTimeoutResult(r.timed_out()))),
                Err(p) => {
                    let (g, r) = p.into_inner();
                    Err(PoisonError::new((MutexGuard { lock, inner: Some(g) }, WaitTimeoutResult(r.timed_out()))))
                }
            }
        }
    }

    pub fn wait_timeout_while<'a, T, F>(
        &self,
        mut guard: MutexGuard<'a, T>,
        dur: ::std::time::Duration,
        mut condition: F,
    ) -> LockResult<(MutexGuard<'a, T>, WaitTimeoutResult)>
    where
        F: FnMut(&mut T) -> bool,
    {
        loop {
            if !condition(&mut *guard) {
                return Ok((guard, WaitTimeoutResult(false)));
            }
            let (g, r) = match self.wait_timeout(guard, dur) {
                Ok(x) => x,
                Err(p) => return Err(p),
            };
            guard = g;
            if r.timed_out() {
                let still = condition(&mut *guard);
                return Ok((guard, WaitTimeoutResult(still)));
            }
        }
    }

    pub fn wait_while<'a, T, F>(
        &self,
        mut guard: MutexGuard<'a, T>,
        mut condition: F,
    ) -> LockResult<MutexGuard<'a, T>>
    where
        F: FnMut(&mut T) -> bool,
    {
        while condition(&mut *guard) {
            guard = self.wait(guard)?;
        }
        Ok(guard)
    }

    fn notify(&self, all: bool) {
        if let Some((s, me)) = sim::ctx() {
            s.op(me, |st| {
                let obj = self.model_obj(st, s.epoch);
                st.tick(me);
                let tvc = st.threads[me].vc;
                let Obj::Cond { waiting, notified, vc, .. } = &mut st.objects[obj as usize] else {
                    unreachable!()
                };
                vc.join(&tvc);
                if all {
                    notified.append(waiting);
                } else if !waiting.is_empty() {
                    notified.push(waiting.remove(0));
                }
                st.touch(obj, me, 3);
                st.log(me, Ev::CondNotify { obj, all });
                Step::Done(())
            })
        } else if all {
            self.inner.notify_all()
        } else {
            self.inner.notify_one()
        }
    }

    pub fn notify_one(&self) {
        self.notify(false)
    }

    pub fn notify_all(&self) {
        self.notify(true)
    }
}

impl Default for Condvar {
    fn default() -> Self {
        Self::new()
    }
}

impl ::std::fmt::Debug for Condvar {
    fn fmt(&self, f: &mut ::std::fmt::Formatter<'_>) -> ::std::fmt::Result {
        f.debug_struct("Condvar").finish_non_exhaustive()
    }
}

// ===========================================================================
// Barrier
// ===========================================================================

pub struct Barrier {
    meta: Meta,
    n: usize,
    inner: real::Barrier,
}

pub struct BarrierWaitResult(bool);

impl BarrierWaitResult {
    pub fn is_leader(&self) -> bool {
        self.0
    }
}

impl ::std::fmt::Debug for BarrierWaitResult {
    fn fmt(&self, f: &mut ::std::fmt::Formatter<'_>) -> ::std::fmt::Result {
        f.debug_struct("BarrierWaitResult").field("is_leader", &self.0).finish()
    }
}

impl Barrier {
    pub fn new(n: usize) -> Self {
        Self { meta: Meta::new(), n, inner: real::Barrier::new(n) }
    }

    pub fn wait(&self) -> BarrierWaitResult {
        let Some((s, me)) = sim::ctx() else {
            return BarrierWaitResult(self.inner.wait().is_leader());
        };
        let n = self.n.max(1);
        let mut arrived_gen: Option<u32> = None;
        let leader = s.op(me, |st| {
            let obj = self.meta.get(st, s.epoch, || Obj::Barrier {
                n,
                count: 0,
                gen: 0,
                vc: VClock::ZERO,
                release_vc: VClock::ZERO,
            });
            match arrived_gen {
                None => {
                    st.tick(me);
                    let tvc = st.threads[me].vc;
                    let Obj::Barrier { count, gen, vc, release_vc, .. } =
                        &mut st.objects[obj as usize]
                    else {
                        unreachable!()
                    };
                    let g = *gen;
                    *count += 1;
                    vc.join(&tvc);
                    let full = *count >= n;
                    if full {
                        *count = 0;
                        *gen = gen.wrapping_add(1);
                        release_vc.join(vc);
                    }
                    let rvc = *release_vc;
                    st.touch(obj, me, 1);
                    st.log(me, Ev::BarrierArrive { obj, gen: g });
                    if full {
                        st.threads[me].vc.join(&rvc);
                        st.log(me, Ev::BarrierLeave { obj, gen: g, leader: true });
                        Step::Done(true)
                    } else {
                        arrived_gen = Some(g);
                        Step::Block(Wait::Barrier(obj, g))
                    }
                }
                Some(g) => {
                    let Obj::Barrier { gen, release_vc, .. } = &st.objects[obj as usize] else {
                        unreachable!()
                    };
                    if *gen == g {
                        return Step::Block(Wait::Barrier(obj, g));
                    }
                    let rvc = *release_vc;
                    st.threads[me].vc.join(&rvc);
                    st.tick(me);
                    st.log(me, Ev::BarrierLeave { obj, gen: g, leader: false });
                    Step::Done(false)
                }
            }
        });
        BarrierWaitResult(leader)
    }
}

impl ::std::fmt::Debug for Barrier {
    fn fmt(&self, f: &mut ::std::fmt::Formatter<'_>) -> ::std::fmt::Result {
        f.debug_struct("Barrier").finish_non_exhaustive()
    }
}

// ===========================================================================
// mpsc
// ===========================================================================

pub mod mpsc {
    pub use ::std::sync::mpsc::{
        RecvError, RecvTimeoutError, SendError, TryRecvError, TrySendError,
    };

    use ::std::{collections::VecDeque, sync::mpsc as real, sync::Arc, time::Duration};

    use super::*;

    struct SimChan<T> {
        epoch: u32,
        obj: u32,
        q: ::std::sync::Mutex<VecDeque<(T, VClock)>>,
    }

    impl<T> SimChan<T> {
        /// The live simulation this channel belongs to, if the caller is in it.
        fn sim(&self) -> Option<(&'static sim::Sim, usize)> {
            sim::ctx().filter(|(s, _)| s.epoch == self.epoch)
        }
    }

    enum Tx<T> {
        Real(real::Sender<T>),
        RealSync(real::SyncSender<T>),
        Sim(Arc<SimChan<T>>),
    }

    enum Rx<T> {
        Real(real::Receiver<T>),
        Sim(Arc<SimChan<T>>),
    }

    pub struct Sender<T>(Tx<T>);
    pub struct SyncSender<T>(Tx<T>);
    pub struct Receiver<T>(Rx<T>);

    fn new_sim_chan<T>(cap: Option<usize>) -> Option<Arc<SimChan<T>>> {
        let (s, _me) = sim::ctx()?;
        let mut st = s.lock();
        let obj = st.new_obj(Obj::Chan {
            cap,
            len: 0,
            senders: 1,
            rx_alive: true,
            pushed: 0,
            taken: 0,
        });
        Some(Arc::new(SimChan {
            epoch: s.epoch,
            obj,
            q: ::std::sync::Mutex::new(VecDeque::new()),
        }))
    }

    pub fn channel<T>() -> (Sender<T>, Receiver<T>) {
        match new_sim_chan::<T>(None) {
            Some(c) => (Sender(Tx::Sim(c.clone())), Receiver(Rx::Sim(c))),
            None => {
                let (s, r) = real::channel();
                (Sender(Tx::Real(s)), Receiver(Rx::Real(r)))
            }
        }
    }

    pub fn sync_channel<T>(bound: usize) -> (SyncSender<T>, Receiver<T>) {
        match new_sim_chan::<T>(Some(bound)) {
            Some(c) => (SyncSender(Tx::Sim(c.clone())), Receiver(Rx::Sim(c))),
            None => {
                let (s, r) = real::sync_channel(bound);
                (SyncSender(Tx::RealSync(s)), Receiver(Rx::Real(r)))
            }
        }
    }

    fn chan_fields(st: &mut State, obj: u32) -> (&mut Option<usize>, &mut usize, &mut usize, &mut bool, &mut u64, &mut u64) {
        match &mut st.objects[obj as usize] {
            Obj::Chan { cap, len, senders, rx_alive, pushed, taken } => {
                (cap, len, senders, rx_alive, pushed, taken)
            }
            _ => unreachable!("object {obj} is not a channel"),
        }
    }

    /// Blocking send with std semantics (rendezvous when the bound is 0).
    fn sim_send<T>(c: &SimChan<T>, t: T, try_only: bool) -> Result<(), TrySendError<T>> {
        let Some((s, me)) = c.sim() else {
            panic!("dsim: simulated channel used outside its simulation");
        };
        let obj = c.obj;
        let mut item = Some(t);
        let mut ticket: Option<u64> = None;
        let r: Result<(), bool> = s.op(me, |st| {
            let (cap, len, _senders, rx_alive, pushed, taken) = chan_fields(st, obj);
            if let Some(tk) = ticket {
                // Phase 2 of a rendezvous: wait for the value to be taken.
                if *taken > tk {
                    st.tick(me);
                    st.log(me, Ev::SendDone { obj });
                    return Step::Done(Ok(()));
                }
                if !*rx_alive {
                    // Receiver gone before taking it: take the value back.
                    let mut q = c.q.lock().unwrap_or_else(|e| e.into_inner());
                    if let Some((v, _)) = q.pop_back() {
                        item = Some(v);
                    }
                    drop(q);
                    let (_, len, ..) = chan_fields(st, obj);
                    *len = 0;
                    st.tick(me);
                    st.log(me, Ev::SendErr { obj });
                    return Step::Done(Err(true));
                }
                return Step::Block(Wait::Rendezvous(obj, tk));
            }
            if !*rx_alive {
                st.tick(me);
                st.log(me, Ev::SendErr { obj });
                return Step::Done(Err(true));
            }
            let room = match *cap {
                None => true,
                Some(0) => *len == 0,
                Some(k) => *len < k,
            };
            if !room {
                if try_only {
                    return Step::Done(Err(false));
                }
                return Step::Block(Wait::SendRoom(obj));
            }
            let is_rendezvous = *cap == Some(0);
            if is_rendezvous && try_only {
                // try_send on a rendezvous channel succeeds only if a
                // receiver is already waiting; approximated as "full".
                return Step::Done(Err(false));
            }
            *len += 1;
            let tk = *pushed;
            *pushed += 1;
            st.tick(me);
            let vc = st.threads[me].vc;
            c.q.lock().unwrap_or_else(|e| e.into_inner()).push_back((item.take().unwrap(), vc));
            st.touch(obj, me, 1);
            st.log(me, Ev::Send { obj });
            if is_rendezvous {
                ticket = Some(tk);
                // Ready immediately only if already taken (impossible here).
                Step::Block(Wait::Rendezvous(obj, tk))
            } else {
                Step::Done(Ok(()))
            }
        });
        match r {
            Ok(()) => Ok(()),
            Err(true) => Err(TrySendError::Disconnected(item.take().expect("value returned"))),
            Err(false) => Err(TrySendError::Full(item.take().expect("value returned"))),
        }
    }

    fn sim_recv<T>(c: &SimChan<T>, block: bool) -> Result<T, TryRecvError> {
        let Some((s, me)) = c.sim() else {
            panic!("dsim: simulated channel used outside its simulation");
        };
        let obj = c.obj;
        s.op(me, |st| {
            let (_cap, len, senders, _rx, _pushed, taken) = chan_fields(st, obj);
            if *len > 0 {
                *len -= 1;
                *taken += 1;
                let (v, vc) = c
                    .q
                    .lock()
                    .unwrap_or_else(|e| e.into_inner())
                    .pop_front()
                    .expect("model and queue agree");
                st.threads[me].vc.join(&vc);
                st.tick(me);
                st.touch(obj, me, 2);
                st.log(me, Ev::Recv { obj });
                return Step::Done(Ok(v));
            }
            if *senders == 0 {
                st.tick(me);
                st.log(me, Ev::RecvErr { obj });
                return Step::Done(Err(TryRecvError::Disconnected));
            }
            if !block {
                st.threads[me].yielded = true;
                return Step::Done(Err(TryRecvError::Empty));
            }
            Step::Block(Wait::Recv(obj))
        })
    }

    fn sim_sender_clone<T>(c: &Arc<SimChan<T>>) -> Arc<SimChan<T>> {
        if let Some((s, _)) = c.sim() {
            let mut st = s.lock();
            let (_, _, senders, ..) = chan_fields(&mut st, c.obj);
            *senders += 1;
        }
        c.clone()
    }

    fn sim_sender_drop<T>(c: &SimChan<T>) {
        if let Some((s, me)) = c.sim() {
            let obj = c.obj;
            s.op(me, |st| {
                let (_, _, senders, ..) = chan_fields(st, obj);
                *senders = senders.saturating_sub(1);
                let left = *senders as u32;
                st.tick(me);
                st.touch(obj, me, 3);
                st.log(me, Ev::SenderDrop { obj, left });
                Step::Done(())
            })
        }
    }

    fn sim_receiver_drop<T>(c: &SimChan<T>) {
        if let Some((s, me)) = c.sim() {
            let obj = c.obj;
            let mut dropped: Vec<(T, VClock)> = Vec::new();
            s.op(me, |st| {
                let (cap, len, _, rx_alive, ..) = chan_fields(st, obj);
                *rx_alive = false;
                // Buffered values are dropped with the receiver; a value in a
                // rendezvous slot goes back to its sender instead.
                if *cap != Some(0) {
                    *len = 0;
                    dropped.extend(c.q.lock().unwrap_or_else(|e| e.into_inner()).drain(..));
                }
                st.tick(me);
                st.touch(obj, me, 4);
                st.log(me, Ev::ReceiverDrop { obj });
                Step::Done(())
            });
            drop(dropped);
        }
    }

    impl<T> Sender<T> {
        pub fn send(&self, t: T) -> Result<(), SendError<T>> {
            match &self.0 {
                Tx::Real(s) => s.send(t),
                Tx::RealSync(s) => s.send(t),
                Tx::Sim(c) => sim_send(c, t, false).map_err(|e| match e {
                    TrySendError::Disconnected(v) | TrySendError::Full(v) => SendError(v),
                }),
            }
        }
    }

    impl<T> SyncSender<T> {
        pub fn send(&self, t: T) -> Result<(), SendError<T>> {
            match &self.0 {
                Tx::Real(s) => s.send(t),
                Tx::RealSync(s) => s.send(t),
                Tx::Sim(c) => sim_send(c, t, false).map_err(|e| match e {
                    TrySendError::Disconnected(v) | TrySendError::Full(v) => SendError(v),
                }),
            }
        }

        pub fn try_send(&self, t: T) -> Result<(), TrySendError<T>> {
            match &self.0 {
                Tx::Real(s) => s.send(t).map_err(|e| TrySendError::Disconnected(e.0)),
                Tx::RealSync(s) => s.try_send(t),
                Tx::Sim(c) => sim_send(c, t, true),
            }
        }
    }

    impl<T> Clone for Sender<T> {
        fn clone(&self) -> Self {
            Sender(match &self.0 {
                Tx::Real(s) => Tx::Real(s.clone()),
                Tx::RealSync(s) => Tx::RealSync(s.clone()),
                Tx::Sim(c) => Tx::Sim(sim_sender_clone(c)),
            })
        }
    }

    impl<T> Clone for SyncSender<T> {
        fn clone(&self) -> Self {
            SyncSender(match &self.0 {
                Tx::Real(s) => Tx::Real(s.clone()),
                Tx::RealSync(s) => Tx::RealSync(s.clone()),
                Tx::Sim(c) => Tx::Sim(sim_sender_clone(c)),
            })
        }
    }

    impl<T> Drop for Tx<T> {
        fn drop(&mut self) {
            if let Tx::Sim(c) = self {
                sim_sender_drop(c);
            }
        }
    }

    impl<T> Drop for Rx<T> {
        fn drop(&mut self) {
            if let Rx::Sim(c) = self {
                sim_receiver_drop(c);
            }
        }
    }

    impl<T> Receiver<T> {
        pub fn recv(&self) -> Result<T, RecvError> {
            match &self.0 {
                Rx::Real(r) => r.recv(),
                Rx::Sim(c) => sim_recv(c, true).map_err(|_| RecvError),
            }
        }

        pub fn try_recv(&self) -> Result<T, TryRecvError> {
            match &self.0 {
                Rx::Real(r) => r.try_recv(),
                Rx::Sim(c) => sim_recv(c, false),
            }
        }

        /// Simulated time has no thread-level timers: a timed receive that
        /// finds nothing reports a timeout after one scheduling point.
        pub fn recv_timeout(&self, timeout: Duration) -> Result<T, RecvTimeoutError> {
            match &self.0 {
                Rx::Real(r) => r.recv_timeout(timeout),
                Rx::Sim(c) => sim_recv(c, false).map_err(|e| match e {
                    TryRecvError::Empty => RecvTimeoutError::Timeout,
                    TryRecvError::Disconnected => RecvTimeoutError::Disconnected,
                }),
            }
        }

        pub fn iter(&self) -> Iter<'_, T> {
            Iter { rx: self }
        }

        pub fn try_iter(&self) -> TryIter<'_, T> {
            TryIter { rx: self }
        }
    }

    pub struct Iter<'a, T> {
        rx: &'a Receiver<T>,
    }

    impl<T> Iterator for Iter<'_, T> {
        type Item = T;
        fn next(&mut self) -> Option<T> {
            self.rx.recv().ok()
        }
    }

    pub struct TryIter<'a, T> {
        rx: &'a Receiver<T>,
    }

    impl<T> Iterator for TryIter<'_, T> {
        type Item = T;
        fn next(&mut self) -> Option<T> {
            self.rx.try_recv().ok()
        }
    }

    pub struct IntoIter<T> {
        rx: Receiver<T>,
    }

    impl<T> Iterator for IntoIter<T> {
        type Item = T;
        fn next(&mut self) -> Option<T> {
            self.rx.recv().ok()
        }
    }

    impl<T> IntoIterator for Receiver<T> {
        type Item = T;
        type IntoIter = IntoIter<T>;
        fn into_iter(self) -> IntoIter<T> {
            IntoIter { rx: self }
        }
    }

    impl<'a, T> IntoIterator for &'a Receiver<T> {
        type Item = T;
        type IntoIter = Iter<'a, T>;
        fn into_iter(self) -> Iter<'a, T> {
            self.iter()
        }
    }

    impl<T> ::std::fmt::Debug for Sender<T> {
        fn fmt(&self, f: &mut ::std::fmt::Formatter<'_>) -> ::std::fmt::Result {
            f.debug_struct("Sender").finish_non_exhaustive()
        }
    }

    impl<T> ::std::fmt::Debug for SyncSender<T> {
        fn fmt(&self, f: &mut ::std::fmt::Formatter<'_>) -> ::std::fmt::Result {
            f.debug_struct("SyncSender").finish_non_exhaustive()
        }
    }

    impl<T> ::std::fmt::Debug for Receiver<T> {
        fn fmt(&self, f: &mut ::std::fmt::Formatter<'_>) -> ::std::fmt::Result {
            f.debug_struct("Receiver").finish_non_exhaustive()
        }
    }

    // The queue is only ever touched by the single running simulated thread.
    unsafe impl<T: Send> Send for Sender<T> {}
    unsafe impl<T: Send> Send for SyncSender<T> {}
    unsafe impl<T: Send> Sync for SyncSender<T> {}
    unsafe impl<T: Send> Send for Receiver<T> {}
}
