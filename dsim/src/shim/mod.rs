//! Drop-in replacement for `std`, as seen by the files of divan that carry
//! the line `#[cfg(divan_verif)] use ::dsim::shim as std;`.
//!
//! Everything not overridden here is the real `std`. Every overridden
//! primitive works in two modes, decided per operation: *simulated* when the
//! calling OS thread belongs to a live [`crate::sim::Sim`], *pass-through*
//! (plain delegation to the real primitive) otherwise.

pub use ::std::*;

pub mod process;
pub mod sync;
pub mod thread;
