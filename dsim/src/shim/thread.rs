//! `std::thread` with modelled `park`/`unpark`, `spawn`, `yield_now`, `sleep`.
//! Simulated threads are real OS threads, so thread-locals, `panicking()` and
//! TLS destructors are the real thing.

pub use ::std::thread::*;

use ::std::{
    io,
    sync::{Arc, Mutex},
    time::Duration,
};

use crate::{
    event::Ev,
    sim::{self, Step, Wait},
};

/// Handle to a thread (`std::thread::Thread`).
pub struct Thread {
    real: ::std::thread::Thread,
    sim: Option<(u32, u8)>,
}

impl Thread {
    pub fn unpark(&self) {
        // Reading the handle is an operation on the memory it lives in (a
        // handle borrowed out of another thread's stack frame may be stale):
        // the monitor is asked before `self` is read.
        if let Some((s, me)) = sim::ctx() {
            s.pre_touch(me, self as *const Self as usize);
        }
        if let (Some((epoch, tid)), Some((s, me))) = (self.sim, sim::ctx()) {
            if s.epoch == epoch {
                sim::unpark_model(s, me, tid as usize);
                return;
            }
        }
        self.real.unpark();
    }

    pub fn id(&self) -> ThreadId {
        self.real.id()
    }

    pub fn name(&self) -> Option<&str> {
        self.real.name()
    }

    /// The simulated thread id this handle refers to (harness use).
    pub fn sim_tid(&self) -> Option<usize> {
        self.sim.map(|(_, t)| t as usize)
    }
}

impl Clone for Thread {
    fn clone(&self) -> Self {
        // Cloning a handle reads the memory it lives in: recorded (with the
        // address) so that the frame-liveness audit can see late accesses.
        // Ask the monitor before reading anything out of `self`: the memory
        // may belong to a frame that is already gone.
        if let Some((s, me)) = sim::ctx() {
            s.pre_touch(me, self as *const Self as usize);
        }
        if let (Some((epoch, target)), Some((s, me))) = (self.sim, sim::ctx()) {
            if s.epoch == epoch {
                let addr = self as *const Self as usize;
                // The real read of `self` happens at the event, before the
                // scheduling point that follows it.
                let mut real = None;
                s.op(me, |st| {
                    real = Some(self.real.clone());
                    st.tick(me);
                    st.log(me, Ev::HandleClone { addr, target });
                    Step::Done(())
                });
                return Self { real: real.unwrap(), sim: self.sim };
            }
        }
        Self { real: self.real.clone(), sim: self.sim }
    }
}

impl ::std::fmt::Debug for Thread {
    fn fmt(&self, f: &mut ::std::fmt::Formatter<'_>) -> ::std::fmt::Result {
        ::std::fmt::Debug::fmt(&self.real, f)
    }
}

pub fn current() -> Thread {
    Thread {
        real: ::std::thread::current(),
        sim: sim::ctx().map(|(s, t)| (s.epoch, t as u8)),
    }
}

pub fn park() {
    match sim::ctx() {
        Some((s, me)) => sim::park_model(s, me, false),
        None => ::std::thread::park(),
    }
}

pub fn park_timeout(dur: Duration) {
    match sim::ctx() {
        Some((s, me)) => sim::park_model(s, me, true),
        None => ::std::thread::park_timeout(dur),
    }
}

pub fn yield_now() {
    match sim::ctx() {
        Some((s, me)) => s.op(me, |st| {
            st.tick(me);
            st.threads[me].yielded = true;
            st.log(me, Ev::Yield);
            Step::Done(())
        }),
        None => ::std::thread::yield_now(),
    }
}

/// Simulated threads have no timers: sleeping is yielding.
pub fn sleep(dur: Duration) {
    match sim::ctx() {
        Some(_) => yield_now(),
        None => ::std::thread::sleep(dur),
    }
}

type Packet<T> = Arc<Mutex<Option<Result<T>>>>;

enum Inner<T> {
    Real(::std::thread::JoinHandle<T>),
    Sim { packet: Packet<T>, tid: usize, epoch: u32, thread: Thread },
}

pub struct JoinHandle<T>(Inner<T>, Option<Thread>);

impl<T> JoinHandle<T> {
    pub fn join(self) -> Result<T> {
        match self.0 {
            Inner::Real(h) => h.join(),
            Inner::Sim { packet, tid, epoch, .. } => {
                if let Some((s, me)) = sim::ctx().filter(|(s, _)| s.epoch == epoch) {
                    s.op(me, |st| {
                        if st.threads[tid].status == sim::Status::Finished {
                            let tvc = st.threads[tid].vc;
                            st.threads[me].vc.join(&tvc);
                            st.tick(me);
                            st.log(me, Ev::Join { target: tid as u8 });
                            Step::Done(())
                        } else {
                            Step::Block(Wait::Join(tid))
                        }
                    });
                }
                let r = packet.lock().unwrap_or_else(|e| e.into_inner()).take();
                r.expect("joined thread left a result")
            }
        }
    }

    pub fn thread(&self) -> &Thread {
        match &self.0 {
            Inner::Real(_) => self.1.as_ref().unwrap(),
            Inner::Sim { thread, .. } => thread,
        }
    }

    pub fn is_finished(&self) -> bool {
        match &self.0 {
            Inner::Real(h) => h.is_finished(),
            Inner::Sim { packet, .. } => {
                packet.lock().unwrap_or_else(|e| e.into_inner()).is_some()
            }
        }
    }
}

impl<T> ::std::fmt::Debug for JoinHandle<T> {
    fn fmt(&self, f: &mut ::std::fmt::Formatter<'_>) -> ::std::fmt::Result {
        f.debug_struct("JoinHandle").finish_non_exhaustive()
    }
}

#[derive(Debug, Default)]
pub struct Builder {
    name: Option<String>,
    stack_size: Option<usize>,
}

impl Builder {
    pub fn new() -> Self {
        Self::default()
    }

    pub fn name(mut self, name: String) -> Self {
        self.name = Some(name);
        self
    }

    pub fn stack_size(mut self, size: usize) -> Self {
        self.stack_size = Some(size);
        self
    }

    pub fn spawn<F, T>(self, f: F) -> io::Result<JoinHandle<T>>
    where
        F: FnOnce() -> T + Send + 'static,
        T: Send + 'static,
    {
        match sim::ctx() {
            None => {
                let mut b = ::std::thread::Builder::new();
                if let Some(n) = self.name {
                    b = b.name(n);
                }
                if let Some(s) = self.stack_size {
                    b = b.stack_size(s);
                }
                let h = b.spawn(f)?;
                let t = Thread { real: h.thread().clone(), sim: None };
                Ok(JoinHandle(Inner::Real(h), Some(t)))
            }
            Some((s, me)) => {
                let packet: Packet<T> = Arc::new(Mutex::new(None));
                let p2 = packet.clone();
                let body = Box::new(move || {
                    let r = ::std::panic::catch_unwind(::std::panic::AssertUnwindSafe(f));
                    if r.is_err() {
                        if let Some((s, me)) = sim::ctx() {
                            let mut st = s.lock();
                            st.tick(me);
                            st.log(me, Ev::ThreadPanic);
                        }
                    }
                    *p2.lock().unwrap_or_else(|e| e.into_inner()) = Some(r);
                });
                let tid = s.spawn(me, self.name, self.stack_size, body)?;
                let real = s.lock().threads[tid].os.clone().expect("registered");
                let thread = Thread { real, sim: Some((s.epoch, tid as u8)) };
                Ok(JoinHandle(Inner::Sim { packet, tid, epoch: s.epoch, thread }, None))
            }
        }
    }
}

pub fn spawn<F, T>(f: F) -> JoinHandle<T>
where
    F: FnOnce() -> T + Send + 'static,
    T: Send + 'static,
{
    Builder::new().spawn(f).expect("failed to spawn thread")
}
