//! Timed-section window of the calling thread, for the "nothing but the
//! benchmarked calls happens between the two timestamps" oracle.
//!
//! The virtual clock opens the window as the last thing a sample's *start*
//! read does and closes it as the first thing the *end* read does. While it is
//! open, a counting `#[global_allocator]` (installed by the harness binary)
//! reports every request the thread makes to [`note`]; requests made inside a
//! [`Scope`] — the harness's own closures (the benchmarked function is the
//! only code that legitimately runs inside the window) and the simulator's
//! internals — are not counted. What remains are allocator operations of the
//! code under test itself: work inside the timed section that is not a
//! benchmarked call.
//!
//! Everything here is a `const`-initialised thread-local without a
//! destructor, so it can be touched from inside the global allocator at any
//! time, including thread start-up and tear-down.

use std::cell::Cell;

/// `UserEv::Mark` tag of the event the end read logs when the window saw
/// foreign allocator requests (`a` = how many, `b` = size of the first).
pub const FOREIGN_ALLOC_TAG: u32 = 0xF0A1;

#[derive(Clone, Copy)]
struct W {
    open: bool,
    depth: u32,
    count: u32,
    first_size: u64,
}

thread_local! {
    static WIN: Cell<W> = const { Cell::new(W { open: false, depth: 0, count: 0, first_size: 0 }) };
}

/// Opens the window (a start read). A window that was already open — the
/// loop's initial timestamp is a start read with no end read — starts afresh.
#[inline]
pub fn open() {
    let _ = WIN.try_with(|w| {
        let mut v = w.get();
        v.open = true;
        v.count = 0;
        v.first_size = 0;
        w.set(v);
    });
}

/// Closes the window (an end read, or the harness abandoning the sample
/// because it is about to inject a panic). Returns how many foreign allocator
/// requests were seen and the size of the first.
#[inline]
pub fn close() -> (u32, u64) {
    WIN.try_with(|w| {
        let mut v = w.get();
        let r = if v.open { (v.count, v.first_size) } else { (0, 0) };
        v.open = false;
        v.count = 0;
        v.first_size = 0;
        w.set(v);
        r
    })
    .unwrap_or((0, 0))
}

/// Called by the counting global allocator for every request.
#[inline]
pub fn note(size: usize) {
    let _ = WIN.try_with(|w| {
        let mut v = w.get();
        if v.open && v.depth == 0 {
            if v.count == 0 {
                v.first_size = size as u64;
            }
            v.count = v.count.saturating_add(1);
            w.set(v);
        }
    });
}

/// While alive, allocator requests of the calling thread are not foreign.
pub struct Scope(());

impl Scope {
    #[inline]
    pub fn enter() -> Scope {
        let _ = WIN.try_with(|w| {
            let mut v = w.get();
            v.depth = v.depth.saturating_add(1);
            w.set(v);
        });
        Scope(())
    }
}

impl Drop for Scope {
    #[inline]
    fn drop(&mut self) {
        let _ = WIN.try_with(|w| {
            let mut v = w.get();
            v.depth = v.depth.saturating_sub(1);
            w.set(v);
        });
    }
}
