//! Fixed-width vector clocks for the happens-before audit.

use crate::MAX_THREADS;

#[derive(Clone, Copy, PartialEq, Eq, Debug)]
pub struct VClock(pub [u32; MAX_THREADS]);

impl Default for VClock {
    fn default() -> Self {
        Self::ZERO
    }
}

impl VClock {
    pub const ZERO: Self = Self([0; MAX_THREADS]);

    #[inline]
    pub fn join(&mut self, other: &VClock) {
        for i in 0..MAX_THREADS {
            if other.0[i] > self.0[i] {
                self.0[i] = other.0[i];
            }
        }
    }

    #[inline]
    pub fn tick(&mut self, tid: usize) {
        self.0[tid] += 1;
    }

    /// `self` (the clock of an event performed by `tid`) happens-before-or-is
    /// the point described by `later`.
    #[inline]
    pub fn hb(&self, tid: usize, later: &VClock) -> bool {
        self.0[tid] <= later.0[tid]
    }

    /// Component-wise `<=`.
    pub fn le(&self, other: &VClock) -> bool {
        (0..MAX_THREADS).all(|i| self.0[i] <= other.0[i])
    }

    pub fn is_zero(&self) -> bool {
        self.0.iter().all(|&c| c == 0)
    }
}
