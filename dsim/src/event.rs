//! The history vocabulary: everything a simulated run records.
//!
//! Every entry carries the global sequence number (the simulator's event
//! order, never coarse time), the simulated thread id, the virtual time and a
//! snapshot of the thread's vector clock.

use crate::vclock::VClock;

#[derive(Clone, Copy, PartialEq, Eq, Debug, Hash)]
pub enum AtomOp {
    Load,
    Store,
    Rmw,
    /// A compare-exchange that failed (acts as a load).
    CasFail,
}

#[derive(Clone, Copy, PartialEq, Eq, Debug, Hash)]
pub enum Ord8 {
    Relaxed,
    Release,
    Acquire,
    AcqRel,
    SeqCst,
}

impl Ord8 {
    pub fn from_std(o: std::sync::atomic::Ordering) -> Self {
        use std::sync::atomic::Ordering::*;
        match o {
            Relaxed => Ord8::Relaxed,
            Release => Ord8::Release,
            Acquire => Ord8::Acquire,
            AcqRel => Ord8::AcqRel,
            SeqCst => Ord8::SeqCst,
            _ => Ord8::SeqCst,
        }
    }
    pub fn acquires(self) -> bool {
        matches!(self, Ord8::Acquire | Ord8::AcqRel | Ord8::SeqCst)
    }
    pub fn releases(self) -> bool {
        matches!(self, Ord8::Release | Ord8::AcqRel | Ord8::SeqCst)
    }
}

#[derive(Clone, Copy, PartialEq, Eq, Debug, Hash)]
pub enum ParkHow {
    /// A token was already pending; consumed without blocking.
    Token,
    /// Blocked, then woken by an `unpark`.
    Woken,
    /// Returned without a token (injected fault).
    Spurious,
    /// `park_timeout` gave up.
    Timeout,
}

#[derive(Clone, Copy, PartialEq, Eq, Debug, Hash)]
pub enum Which {
    Start,
    End,
}

#[derive(Clone, Copy, PartialEq, Eq, Debug, Hash)]
pub enum Phase {
    Loop,
    Precision,
}

#[derive(Clone, Copy, PartialEq, Eq, Debug, Hash)]
pub enum AllocKind {
    Alloc,
    AllocZeroed,
    Dealloc,
    Realloc,
}

#[derive(Clone, Copy, PartialEq, Eq, Debug, Hash)]
pub enum PanicPhase {
    Gen,
    Benched,
    Task,
    Counter,
    DropOutput,
    DropInput,
}

/// Workload events appended by harness closures.
#[derive(Clone, Copy, PartialEq, Eq, Debug, Hash)]
pub enum UserEv {
    // sample loop
    LoopBegin,
    LoopReturn { caller_panicked: bool },
    Gen { id: u64 },
    Count { id: u64, kind: u8, value: u64 },
    CallBegin { id: u64 },
    CallEnd { id: u64, out: u64 },
    /// A by-value input dropped inside the benchmarked call.
    Consume { id: u64 },
    DropOutput { out: u64 },
    DropInput { id: u64 },
    PanicInjected { phase: PanicPhase },
    // pool
    BroadcastBegin { j: u32, n: u32 },
    TaskBegin { j: u32, i: u32 },
    TaskEnd { j: u32, i: u32 },
    TaskPanic { j: u32, i: u32 },
    BroadcastReturn { j: u32 },
    PoolDrop,
    PoolDropped,
    // allocator
    AllocOp { op: AllocKind, size: u64, new_size: u64 },
    TallyTaken,
    // free-form marker
    Mark { tag: u32, a: u64, b: u64 },
}

#[derive(Clone, Copy, PartialEq, Debug)]
pub enum Ev {
    Spawn { child: u8 },
    Start,
    Exit,
    Abort,
    ThreadPanic,
    Atomic { obj: u32, addr: usize, op: AtomOp, ord: Ord8, old: u64, new: u64 },
    Fence { ord: Ord8 },
    HandleClone { addr: usize, target: u8 },
    Lock { obj: u32 },
    TryLockFail { obj: u32 },
    Unlock { obj: u32 },
    Send { obj: u32 },
    SendDone { obj: u32 },
    Recv { obj: u32 },
    SendErr { obj: u32 },
    RecvErr { obj: u32 },
    SenderDrop { obj: u32, left: u32 },
    ReceiverDrop { obj: u32 },
    Park { how: ParkHow },
    Unpark { target: u8 },
    BarrierArrive { obj: u32, gen: u32 },
    BarrierLeave { obj: u32, gen: u32, leader: bool },
    CondWait { obj: u32 },
    CondNotify { obj: u32, all: bool },
    Join { target: u8 },
    Yield,
    ClockRead { which: Which, raw: u64, phase: Phase },
    PrecisionBegin,
    PrecisionEnd { ps: u128 },
    TallyCleared,
    User(UserEv),
}

#[derive(Clone, Copy, Debug)]
pub struct Event {
    pub seq: u32,
    pub tid: u8,
    /// Virtual time (ticks since the clock's start value) when logged.
    pub vt: u64,
    pub kind: Ev,
    pub vc: VClock,
    /// The thread was unwinding from a panic when it performed this
    /// operation (e.g. a lock released by a guard dropped during unwinding).
    pub unwinding: bool,
}

/// FNV-1a style incremental hasher used for determinism hashes and sync-order
/// signatures. (std's `DefaultHasher` is deterministic too, but its algorithm
/// is unspecified; this keeps hashes stable across toolchains.)
#[derive(Clone, Copy)]
pub struct Fnv(pub u64);

impl Default for Fnv {
    fn default() -> Self {
        Fnv(0xcbf2_9ce4_8422_2325)
    }
}

impl Fnv {
    #[inline]
    pub fn u64(&mut self, v: u64) {
        for b in v.to_le_bytes() {
            self.0 ^= b as u64;
            self.0 = self.0.wrapping_mul(0x0000_0100_0000_01B3);
        }
    }
    #[inline]
    pub fn u128(&mut self, v: u128) {
        self.u64(v as u64);
        self.u64((v >> 64) as u64);
    }
    pub fn bytes(&mut self, bs: &[u8]) {
        for &b in bs {
            self.0 ^= b as u64;
            self.0 = self.0.wrapping_mul(0x0000_0100_0000_01B3);
        }
    }
    pub fn finish(self) -> u64 {
        self.0
    }
}

impl Event {
    /// Feeds everything except raw addresses into the hasher.
    pub fn hash_into(&self, h: &mut Fnv) {
        h.u64(self.seq as u64);
        h.u64(self.tid as u64 | (self.unwinding as u64) << 8);
        h.u64(self.vt);
        // Debug formatting would include addresses; normalise them away.
        let kind = match self.kind {
            Ev::Atomic { obj, op, ord, old, new, .. } => {
                Ev::Atomic { obj, addr: 0, op, ord, old, new }
            }
            Ev::HandleClone { target, .. } => Ev::HandleClone { addr: 0, target },
            k => k,
        };
        h.bytes(format!("{kind:?}").as_bytes());
        for c in self.vc.0 {
            h.u64(c as u64);
        }
    }
}

pub fn history_hash(events: &[Event]) -> u64 {
    let mut h = Fnv::default();
    for e in events {
        e.hash_into(&mut h);
    }
    h.finish()
}
