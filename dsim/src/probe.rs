//! Workload events and probes appended by harness closures and by hooks in
//! divan. Every event is a scheduling point, so the scheduler can interleave
//! threads between any two of them.

use crate::{
    event::{Ev, UserEv},
    sim::{self, Step},
};

/// Appends a workload event; a scheduling point. Outside a simulation this
/// does nothing.
#[inline]
pub fn event(ev: UserEv) {
    if let Some((s, me)) = sim::ctx() {
        s.op(me, |st| {
            st.tick(me);
            st.log(me, Ev::User(ev));
            Step::Done(())
        })
    }
}

/// Appends a workload event without yielding (used where a scheduling point
/// would sit inside a region the property says nothing about).
#[inline]
pub fn event_noyield(ev: UserEv) {
    let _internal = crate::window::Scope::enter();
    if let Some((s, me)) = sim::ctx() {
        let mut st = s.lock();
        st.tick(me);
        st.log(me, Ev::User(ev));
    }
}

/// Hook H7: `ThreadAllocInfo::clear()` ran on this thread.
#[inline]
pub fn tally_cleared() {
    if let Some((s, me)) = sim::ctx() {
        s.op(me, |st| {
            st.tick(me);
            st.log(me, Ev::TallyCleared);
            Step::Done(())
        })
    }
}

/// Counts a "this rare condition was hit" probe.
pub fn hit(name: &'static str) {
    if let Some((s, _)) = sim::ctx() {
        s.lock().probe(name);
    }
}

/// Counts a fired fault of the given kind (harness-injected faults such as
/// panics and allocator failures).
pub fn fault_fired(kind: &'static str) {
    if let Some((s, _)) = sim::ctx() {
        s.lock().fire(kind);
    }
}

/// Stops the run with an invariant violation detected while it proceeds.
pub fn fail(message: String) -> ! {
    match sim::ctx() {
        Some((s, _)) => s.fail_invariant(message),
        None => panic!("{message}"),
    }
}

/// The calling thread's simulated id.
pub fn tid() -> Option<usize> {
    sim::current_tid()
}
