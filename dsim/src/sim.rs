//! The scheduler: real OS threads, released one at a time.
//!
//! Exactly one simulated thread runs at any moment; every other one waits on
//! its own OS-level park. A thread that reaches a scheduling point (any shim
//! operation, any probe) takes the sim lock, applies its operation to the
//! model, asks the strategy which enabled thread runs next, hands over, and
//! waits until it is chosen again. Blocking is modelled, never real.

use std::{
    cell::Cell,
    collections::BTreeMap,
    panic::AssertUnwindSafe,
    sync::{
        atomic::{AtomicBool, AtomicU32, AtomicU64, AtomicUsize, Ordering},
        Arc, Condvar, Mutex, MutexGuard,
    },
    time::Duration,
};

use crate::{
    event::{Ev, Event, Fnv, ParkHow, Phase, Which},
    strategy::{Choice, Pick, Strategy, StrategySpec},
    vclock::VClock,
    MAX_THREADS,
};

// ---------------------------------------------------------------------------
// Configuration and results
// ---------------------------------------------------------------------------

#[derive(Clone, Debug, PartialEq)]
pub struct ClockCfg {
    /// Counter frequency in Hz (what divan's `Timer::Tsc` is given).
    pub frequency: u64,
    /// Quantum: readings are multiples of `step` (relative to 0).
    pub step: u64,
    /// Counter value at the start of the run.
    pub start: u64,
    /// Ticks consumed by one clock read.
    pub read_cost: u64,
    /// Per-thread constant offsets (TSC skew between cores).
    pub skew: Vec<i64>,
}

impl Default for ClockCfg {
    fn default() -> Self {
        Self {
            frequency: 1_000_000_000,
            step: 1,
            start: 0,
            read_cost: 1,
            skew: Vec::new(),
        }
    }
}

#[derive(Clone, Copy, Debug, PartialEq)]
pub enum ClockFaultKind {
    /// Time does not advance for the next `reads` clock reads.
    Stall { reads: u32 },
    JumpFwd { ticks: u64 },
    JumpBack { ticks: u64 },
}

#[derive(Clone, Copy, Debug, PartialEq)]
pub struct ClockFault {
    /// Index (among non-precision reads) of the clock read at which it fires.
    pub at_read: u32,
    pub kind: ClockFaultKind,
}

#[derive(Clone, Debug, Default, PartialEq)]
pub struct FaultPlan {
    /// `(tid, k)`: the k-th `park` call of thread `tid` returns spuriously if
    /// no token is pending.
    pub spurious_parks: Vec<(usize, u32)>,
    /// Global indices of `compare_exchange_weak` calls that fail spuriously.
    pub cas_weak_fail: Vec<u32>,
    pub clock: Vec<ClockFault>,
}

#[derive(Clone)]
pub struct RunConfig {
    pub seed: u64,
    pub strategy: StrategySpec,
    pub max_steps: usize,
    pub clock: ClockCfg,
    pub faults: FaultPlan,
    /// `Timer::precision()` override in picoseconds (None: measured on the
    /// virtual clock).
    pub precision_override: Option<u128>,
    /// Overheads handed to divan: sample_loop, tally_alloc, tally_dealloc,
    /// tally_realloc (picoseconds).
    pub overheads: [u128; 4],
    /// Virtual ticks the one-off measurement of those overheads takes (the
    /// real `Timer::bench_overheads()` measures on first use and caches per
    /// process): spent, and logged as a `Mark` event, by the first request
    /// for the overheads in a run.
    pub overhead_measure_ticks: u64,
    pub watchdog: Duration,
    pub name: &'static str,
    /// Per-run harness context reachable from any simulated thread (also
    /// from `Drop` impls, which have no captured environment).
    pub user: Option<Arc<dyn std::any::Any + Send + Sync>>,
    /// In-run invariant monitor (see [`Monitor`]).
    pub monitor: Option<Arc<dyn Monitor>>,
}

/// An invariant evaluated while the run proceeds, under the sim lock.
///
/// `pre_touch` is asked *before* a simulated thread operates on shim-visible
/// memory (an atomic, a thread handle about to be cloned); returning a
/// message stops the run with [`Failure::Invariant`] before the real
/// operation is executed — so that a use-after-free in the code under test
/// is reported instead of executed.
pub trait Monitor: Send + Sync {
    /// Sees every logged event; returning a message stops the run (with
    /// [`Failure::Invariant`]) before any other thread is released.
    fn on_event(&self, _e: &Event) -> Option<String> {
        None
    }
    fn pre_touch(&self, _tid: usize, _addr: usize) -> Option<String> {
        None
    }
}

impl Default for RunConfig {
    fn default() -> Self {
        Self {
            seed: 1,
            strategy: StrategySpec::RunToBlock,
            max_steps: 20_000,
            clock: ClockCfg::default(),
            faults: FaultPlan::default(),
            precision_override: None,
            overheads: [0; 4],
            overhead_measure_ticks: 0,
            watchdog: Duration::from_secs(20),
            name: "run",
            user: None,
            monitor: None,
        }
    }
}

#[derive(Clone, Debug, PartialEq)]
pub enum Failure {
    /// No enabled thread while some thread is unfinished.
    Deadlock { blocked: Vec<(usize, String)> },
    /// More than `max_steps` scheduling steps.
    NoProgress { steps: usize },
    /// `std::process::abort` reached inside the simulation.
    Abort { tid: usize },
    /// Replay asked for a thread that is not enabled.
    ReplayDivergence { decision: usize, wanted: usize },
    /// Wall-clock watchdog: code spun without reaching a scheduling point.
    Watchdog,
    TooManyThreads,
    /// A check evaluated inside the run (invariant) failed.
    Invariant { message: String },
}

impl Failure {
    pub fn class(&self) -> &'static str {
        match self {
            Failure::Deadlock { .. } => "deadlock",
            Failure::NoProgress { .. } => "no_progress",
            Failure::Abort { .. } => "abort",
            Failure::ReplayDivergence { .. } => "replay_divergence",
            Failure::Watchdog => "watchdog",
            Failure::TooManyThreads => "too_many_threads",
            Failure::Invariant { .. } => "invariant",
        }
    }

    /// Harness errors (exit 2) as opposed to property violations.
    pub fn is_harness_error(&self) -> bool {
        matches!(
            self,
            Failure::ReplayDivergence { .. }
                | Failure::Watchdog
                | Failure::TooManyThreads
        )
    }
}

/// One scheduling decision (recorded only when >= 2 threads were enabled).
#[derive(Clone, Copy, Debug, PartialEq, Eq)]
pub struct Decision {
    pub chosen: u8,
    /// What run-to-block would have chosen.
    pub default: u8,
    pub enabled: u8,
}

#[derive(Debug)]
pub struct RunResult {
    pub events: Vec<Event>,
    pub decisions: Vec<Decision>,
    pub failure: Option<Failure>,
    pub steps: usize,
    pub threads: usize,
    /// Virtual ticks elapsed.
    pub ticks: u64,
    pub faults_fired: BTreeMap<&'static str, u64>,
    pub probes: BTreeMap<&'static str, u64>,
    /// Hash of the per-object operation orders.
    pub sync_sig: u64,
    /// Message of a panic that escaped the scenario's main closure.
    pub main_panic: Option<String>,
    /// Clock reads made while `Timer::precision()` was measuring.
    pub precision_reads: u64,
}

impl RunResult {
    pub fn deviations(&self) -> Vec<(usize, usize)> {
        self.decisions
            .iter()
            .enumerate()
            .filter(|(_, d)| d.chosen != d.default)
            .map(|(i, d)| (i, d.chosen as usize))
            .collect()
    }

    pub fn choices(&self) -> Vec<u8> {
        self.decisions.iter().map(|d| d.chosen).collect()
    }

    pub fn determinism_hash(&self) -> u64 {
        let mut h = Fnv::default();
        for e in &self.events {
            e.hash_into(&mut h);
        }
        for d in &self.decisions {
            h.u64(d.chosen as u64 | (d.enabled as u64) << 8);
        }
        h.u64(self.ticks);
        h.u64(self.steps as u64);
        if let Some(f) = &self.failure {
            h.bytes(format!("{f:?}").as_bytes());
        }
        h.finish()
    }
}

// ---------------------------------------------------------------------------
// Model state
// ---------------------------------------------------------------------------

#[derive(Clone, Copy, Debug, PartialEq, Eq)]
pub(crate) enum Wait {
    Mutex(u32),
    Recv(u32),
    SendRoom(u32),
    Rendezvous(u32, u64),
    Park,
    Barrier(u32, u32),
    Join(usize),
    Cond(u32, u64),
    /// Waiting to be started (OS thread not yet registered).
    NotStarted,
}

#[derive(Clone, Copy, Debug, PartialEq, Eq)]
pub(crate) enum Status {
    Runnable,
    Blocked(Wait),
    Finished,
}

pub(crate) struct ThreadSt {
    pub status: Status,
    pub vc: VClock,
    pub token: bool,
    pub token_vc: VClock,
    pub park_calls: u32,
    pub yielded: bool,
    /// Yield points in a row at which this thread was enabled and passed over.
    pub skipped: u32,
    pub os: Option<std::thread::Thread>,
    pub name: Option<String>,
    /// Clock accumulated by relaxed loads, published by an acquire fence.
    pub pending_acq: VClock,
    /// Clock captured at the last release fence.
    pub fence_rel: VClock,
    pub sig: u64,
}

pub(crate) enum Obj {
    Atomic { rel: VClock },
    Mutex { owner: Option<usize>, vc: VClock },
    Chan {
        cap: Option<usize>,
        len: usize,
        senders: usize,
        rx_alive: bool,
        pushed: u64,
        taken: u64,
    },
    Barrier { n: usize, count: usize, gen: u32, vc: VClock, release_vc: VClock },
    Cond { next_ticket: u64, waiting: Vec<u64>, notified: Vec<u64>, vc: VClock },
}

pub(crate) struct ClockSt {
    pub cfg: ClockCfg,
    /// Ticks elapsed since the start value.
    pub now: u64,
    pub loop_reads: u32,
    pub stall_left: u32,
    pub phase: Phase,
    pub faults: Vec<ClockFault>,
}

pub struct State {
    pub(crate) threads: Vec<ThreadSt>,
    pub(crate) current: usize,
    pub(crate) objects: Vec<Obj>,
    pub(crate) obj_sig: Vec<u64>,
    pub(crate) events: Vec<Event>,
    pub(crate) decisions: Vec<Decision>,
    pub(crate) steps: usize,
    pub(crate) max_steps: usize,
    pub(crate) strategy: Strategy,
    pub(crate) failure: Option<Failure>,
    pub(crate) finished: bool,
    pub(crate) clock: ClockSt,
    pub(crate) faults: FaultPlan,
    pub(crate) faults_fired: BTreeMap<&'static str, u64>,
    pub(crate) probes: BTreeMap<&'static str, u64>,
    pub(crate) handles: Vec<Option<std::thread::JoinHandle<()>>>,
    pub(crate) cas_weak_calls: u32,
    pub(crate) main_panic: Option<String>,
    pub(crate) precision_override: Option<u128>,
    pub(crate) overheads: [u128; 4],
    pub(crate) overhead_measure_ticks: u64,
    pub(crate) overheads_measured: bool,
    /// Model object of shim objects by address (see `Meta::get`).
    pub(crate) by_addr: std::collections::HashMap<usize, u32>,
    pub(crate) user: Option<Arc<dyn std::any::Any + Send + Sync>>,
    pub(crate) precision_reads: u64,
    pub(crate) monitor: Option<Arc<dyn Monitor>>,
    pub(crate) pending_invariant: Option<String>,
    pub(crate) trace: bool,
}

pub(crate) enum Step<R> {
    Done(R),
    Block(Wait),
}

pub struct Sim {
    pub(crate) epoch: u32,
    pub(crate) st: Mutex<State>,
    cv: Condvar,
    go: [AtomicBool; MAX_THREADS],
    /// Thread to join before the next released thread continues.
    join_pending: AtomicUsize,
}

static EPOCH: AtomicU32 = AtomicU32::new(1);
static LEAKED_THREADS: AtomicU64 = AtomicU64::new(0);

/// OS threads left parked by failed runs of this process so far.
pub fn leaked_threads() -> u64 {
    LEAKED_THREADS.load(Ordering::Relaxed)
}

// ---------------------------------------------------------------------------
// Thread-local "which simulation am I in"
// ---------------------------------------------------------------------------

thread_local! {
    // Const-initialised, destructor-free: usable during TLS tear-down and
    // from inside a global allocator.
    static CTX: Cell<(*const Sim, usize)> = const { Cell::new((std::ptr::null(), 0)) };
}

/// The simulation the calling OS thread belongs to, if any.
#[inline]
pub(crate) fn ctx() -> Option<(&'static Sim, usize)> {
    let (p, tid) = CTX.try_with(|c| c.get()).unwrap_or((std::ptr::null(), 0));
    if p.is_null() {
        None
    } else {
        // SAFETY: the pointer is set by `thread_main`, which keeps an
        // `Arc<Sim>` alive until it clears the cell again. Threads leaked
        // after a failure never clear it and never drop their `Arc`.
        Some((unsafe { &*p }, tid))
    }
}

/// `true` iff the calling thread is a simulated thread of a live run.
#[inline]
pub fn active() -> bool {
    ctx().is_some()
}

/// The calling thread's simulated id.
pub fn current_tid() -> Option<usize> {
    ctx().map(|(_, t)| t)
}

fn park_forever() -> ! {
    loop {
        std::thread::park();
    }
}

// ---------------------------------------------------------------------------
// State helpers
// ---------------------------------------------------------------------------

impl State {
    #[inline]
    pub(crate) fn log(&mut self, tid: usize, kind: Ev) {
        let seq = self.events.len() as u32;
        let vc = self.threads[tid].vc;
        // `log` always runs on the thread that performs the operation.
        let unwinding = std::thread::panicking();
        let e = Event { seq, tid: tid as u8, vt: self.clock.now, kind, vc, unwinding };
        if self.trace {
            eprintln!("EV {seq} t{tid} {kind:?}");
        }
        if let Some(m) = &self.monitor {
            if let Some(msg) = m.on_event(&e) {
                if self.pending_invariant.is_none() {
                    self.pending_invariant = Some(msg);
                }
            }
        }
        self.events.push(e);
    }

    #[inline]
    pub(crate) fn tick(&mut self, tid: usize) {
        self.threads[tid].vc.tick(tid);
    }

    #[inline]
    pub(crate) fn touch(&mut self, obj: u32, tid: usize, opcode: u64) {
        let s = &mut self.obj_sig[obj as usize];
        *s = (*s ^ (((tid as u64) << 8) | opcode)).wrapping_mul(0x0000_0100_0000_01B3);
    }

    #[inline]
    pub(crate) fn touch_thread(&mut self, target: usize, tid: usize, opcode: u64) {
        let s = &mut self.threads[target].sig;
        *s = (*s ^ (((tid as u64) << 8) | opcode)).wrapping_mul(0x0000_0100_0000_01B3);
    }

    pub(crate) fn new_obj(&mut self, obj: Obj) -> u32 {
        self.objects.push(obj);
        self.obj_sig.push(0xcbf2_9ce4_8422_2325);
        (self.objects.len() - 1) as u32
    }

    pub fn fire(&mut self, kind: &'static str) {
        *self.faults_fired.entry(kind).or_insert(0) += 1;
    }

    pub fn probe(&mut self, name: &'static str) {
        *self.probes.entry(name).or_insert(0) += 1;
    }

    fn ready(&self, tid: usize, w: Wait) -> bool {
        match w {
            Wait::Mutex(o) => match &self.objects[o as usize] {
                Obj::Mutex { owner, .. } => owner.is_none(),
                _ => unreachable!(),
            },
            Wait::Recv(o) => match &self.objects[o as usize] {
                Obj::Chan { len, senders, .. } => *len > 0 || *senders == 0,
                _ => unreachable!(),
            },
            Wait::SendRoom(o) => match &self.objects[o as usize] {
                Obj::Chan { cap, len, rx_alive, .. } => {
                    !*rx_alive
                        || match cap {
                            None => true,
                            Some(0) => *len == 0,
                            Some(c) => *len < *c,
                        }
                }
                _ => unreachable!(),
            },
            Wait::Rendezvous(o, ticket) => match &self.objects[o as usize] {
                Obj::Chan { taken, rx_alive, .. } => *taken > ticket || !*rx_alive,
                _ => unreachable!(),
            },
            Wait::Park => self.threads[tid].token,
            Wait::Barrier(o, gen) => match &self.objects[o as usize] {
                Obj::Barrier { gen: g, .. } => *g != gen,
                _ => unreachable!(),
            },
            Wait::Join(t) => self.threads[t].status == Status::Finished,
            Wait::Cond(o, ticket) => match &self.objects[o as usize] {
                Obj::Cond { notified, .. } => notified.contains(&ticket),
                _ => unreachable!(),
            },
            Wait::NotStarted => false,
        }
    }

    fn describe_wait(&self, w: Wait) -> String {
        match w {
            Wait::Mutex(o) => format!("Mutex(obj {o})"),
            Wait::Recv(o) => format!("Recv(chan {o})"),
            Wait::SendRoom(o) => format!("SendRoom(chan {o})"),
            Wait::Rendezvous(o, _) => format!("Rendezvous(chan {o})"),
            Wait::Park => "Park".into(),
            Wait::Barrier(o, g) => match &self.objects[o as usize] {
                Obj::Barrier { n, count, .. } => {
                    format!("Barrier(obj {o}, gen {g}, {count}/{n} arrived)")
                }
                _ => unreachable!(),
            },
            Wait::Join(t) => format!("Join(thread {t})"),
            Wait::Cond(o, _) => format!("Condvar(obj {o})"),
            Wait::NotStarted => "NotStarted".into(),
        }
    }

    // ---- virtual clock ----------------------------------------------------

    pub(crate) fn advance(&mut self, ticks: u64) {
        if self.clock.stall_left > 0 {
            return;
        }
        self.clock.now = self.clock.now.saturating_add(ticks);
    }

    pub(crate) fn read_clock(&mut self, tid: usize, which: Which) -> u64 {
        let phase = self.clock.phase;
        if phase == Phase::Loop {
            let idx = self.clock.loop_reads;
            self.clock.loop_reads += 1;
            // Fire scheduled clock faults.
            let mut i = 0;
            while i < self.clock.faults.len() {
                if self.clock.faults[i].at_read == idx {
                    let f = self.clock.faults.remove(i);
                    match f.kind {
                        ClockFaultKind::Stall { reads } => {
                            self.clock.stall_left = reads;
                            self.fire("clock_stall");
                        }
                        ClockFaultKind::JumpFwd { ticks } => {
                            self.clock.now = self.clock.now.saturating_add(ticks);
                            self.fire("clock_jump_fwd");
                        }
                        ClockFaultKind::JumpBack { ticks } => {
                            self.clock.now = self.clock.now.saturating_sub(ticks);
                            self.fire("clock_jump_back");
                        }
                    }
                } else {
                    i += 1;
                }
            }
        }
        if self.clock.stall_left > 0 {
            self.clock.stall_left -= 1;
        } else {
            self.clock.now = self.clock.now.saturating_add(self.clock.cfg.read_cost);
        }
        let abs = self.clock.cfg.start.wrapping_add(self.clock.now);
        let step = self.clock.cfg.step.max(1);
        let mut raw = abs - abs % step;
        if let Some(&skew) = self.clock.cfg.skew.get(tid) {
            raw = raw.wrapping_add(skew as u64);
        }
        if phase == Phase::Precision {
            // Thousands of back-to-back reads: counted, not logged.
            self.precision_reads += 1;
        } else {
            self.tick(tid);
            self.log(tid, Ev::ClockRead { which, raw, phase });
        }
        raw
    }
}

// ---------------------------------------------------------------------------
// Scheduling
// ---------------------------------------------------------------------------

impl Sim {
    #[inline]
    pub(crate) fn lock(&self) -> MutexGuard<'_, State> {
        self.st.lock().unwrap_or_else(|e| e.into_inner())
    }

    fn fail(&self, mut st: MutexGuard<'_, State>, failure: Failure) -> ! {
        if st.failure.is_none() {
            st.failure = Some(failure);
        }
        self.cv.notify_all();
        drop(st);
        park_forever()
    }

    /// Records a failure detected by harness code running inside the
    /// simulation (an invariant checked while the run proceeds) and stops the
    /// run.
    pub fn fail_invariant(&self, message: String) -> ! {
        let st = self.lock();
        self.fail(st, Failure::Invariant { message })
    }

    /// One scheduling point. `f` applies the operation to the model under the
    /// sim lock; if it cannot proceed it returns `Block`, and is retried once
    /// the scheduler has chosen this thread again.
    pub(crate) fn op<R>(&self, me: usize, mut f: impl FnMut(&mut State) -> Step<R>) -> R {
        // The simulator's own allocator requests are never "foreign work".
        let _internal = crate::window::Scope::enter();
        loop {
            let mut st = self.lock();
            if st.failure.is_some() {
                drop(st);
                park_forever();
            }
            debug_assert_eq!(st.current, me, "thread {me} ran out of turn");
            match f(&mut st) {
                Step::Done(r) => {
                    self.reschedule(st, me);
                    return r;
                }
                Step::Block(w) => {
                    debug_assert!(!st.ready(me, w), "blocked on a ready wait {w:?}");
                    st.threads[me].status = Status::Blocked(w);
                    self.reschedule(st, me);
                }
            }
        }
    }

    /// Picks the next thread and hands over. Returns when `me` runs again.
    fn reschedule(&self, mut st: MutexGuard<'_, State>, me: usize) {
        if let Some(message) = st.pending_invariant.take() {
            self.fail(st, Failure::Invariant { message });
        }
        st.steps += 1;
        if st.steps > st.max_steps {
            let steps = st.steps;
            self.fail(st, Failure::NoProgress { steps });
        }
        let next = match self.pick_next(&mut st, me) {
            Ok(Some(n)) => n,
            Ok(None) => unreachable!("running thread is unfinished"),
            Err(f) => self.fail(st, f),
        };
        if next == me {
            return;
        }
        st.current = next;
        let os = st.threads[next].os.clone().expect("os thread registered");
        drop(st);
        self.go[next].store(true, Ordering::Release);
        os.unpark();
        self.wait_turn(me);
    }

    /// Chooses among enabled threads; `Ok(None)` when every thread finished.
    fn pick_next(&self, st: &mut State, me: usize) -> Result<Option<usize>, Failure> {
        let mut enabled = [0usize; MAX_THREADS];
        let mut n = 0;
        let mut unfinished = 0;
        for t in 0..st.threads.len() {
            match st.threads[t].status {
                Status::Runnable => {
                    enabled[n] = t;
                    n += 1;
                    unfinished += 1;
                }
                Status::Blocked(w) => {
                    unfinished += 1;
                    if st.ready(t, w) {
                        enabled[n] = t;
                        n += 1;
                    }
                }
                Status::Finished => {}
            }
        }
        if n == 0 {
            if unfinished == 0 {
                return Ok(None);
            }
            let blocked = (0..st.threads.len())
                .filter_map(|t| match st.threads[t].status {
                    Status::Blocked(w) => Some((t, st.describe_wait(w))),
                    _ => None,
                })
                .collect();
            return Err(Failure::Deadlock { blocked });
        }
        // A thread that just yielded is passed over once if anything else can
        // run, so that spin-with-yield loops cannot starve the system under
        // non-preemptive strategies.
        //
        // With three or more threads that is not enough: two spinners can
        // hand the turn to each other for ever while a strategy that never
        // prefers the third thread (priorities, a starved victim, run-to-
        // block) keeps it waiting. So threads passed over at yield points
        // age: one that was enabled and passed over at two yield points in a
        // row is given the turn at the next one. Strategies keep their choice
        // everywhere else, and with two threads nothing changes.
        let mut enabled = &enabled[..n];
        let mut filtered = [0usize; MAX_THREADS];
        let yield_point = n >= 2 && st.threads[me].yielded && enabled.contains(&me);
        if yield_point {
            let mut m = 0;
            for &t in enabled {
                if t != me {
                    filtered[m] = t;
                    m += 1;
                }
            }
            let oldest = filtered[..m]
                .iter()
                .copied()
                .filter(|&t| st.threads[t].skipped >= 2)
                .max_by_key(|&t| (st.threads[t].skipped, std::cmp::Reverse(t)));
            if let Some(t) = oldest {
                filtered[0] = t;
                m = 1;
            }
            enabled = &filtered[..m];
        }
        st.threads[me].yielded = false;
        let aging: Vec<usize> = if yield_point {
            (0..st.threads.len())
                .filter(|&t| t != me && st.threads[t].status != Status::Finished && {
                    match st.threads[t].status {
                        Status::Runnable => true,
                        Status::Blocked(w) => st.ready(t, w),
                        Status::Finished => false,
                    }
                })
                .collect()
        } else {
            Vec::new()
        };

        let next = if enabled.len() == 1 {
            enabled[0]
        } else {
            let choice = Choice {
                enabled,
                current: me,
                step: st.steps,
                decision_index: st.decisions.len(),
            };
            let default = crate::strategy::run_to_block(&choice);
            let chosen = match st.strategy.pick(&choice) {
                Pick::Tid(t) => t,
                Pick::Diverged { wanted } => {
                    return Err(Failure::ReplayDivergence {
                        decision: st.decisions.len(),
                        wanted,
                    })
                }
            };
            debug_assert!(enabled.contains(&chosen));
            st.decisions.push(Decision {
                chosen: chosen as u8,
                default: default as u8,
                enabled: enabled.len() as u8,
            });
            chosen
        };
        // Threads that could have run at this yield point and did not, age.
        for t in aging {
            if t != next {
                st.threads[t].skipped += 1;
            }
        }
        st.threads[next].skipped = 0;
        if let Status::Blocked(_) = st.threads[next].status {
            st.threads[next].status = Status::Runnable;
        }
        Ok(Some(next))
    }

    fn wait_turn(&self, me: usize) {
        while !self.go[me].swap(false, Ordering::Acquire) {
            std::thread::park();
        }
        let j = self.join_pending.swap(usize::MAX, Ordering::AcqRel);
        if j != usize::MAX {
            let h = self.lock().handles[j].take();
            if let Some(h) = h {
                let _ = h.join();
            }
        }
    }

    /// Last act of a simulated thread.
    fn thread_exit(&self, me: usize) {
        let mut st = self.lock();
        if st.failure.is_some() {
            drop(st);
            park_forever();
        }
        st.tick(me);
        st.log(me, Ev::Exit);
        st.threads[me].status = Status::Finished;
        st.steps += 1;
        match self.pick_next(&mut st, me) {
            Ok(Some(next)) => {
                st.current = next;
                let os = st.threads[next].os.clone().expect("os thread registered");
                drop(st);
                // The next thread joins this OS thread (so its TLS
                // destructors have finished) before it continues.
                self.join_pending.store(me, Ordering::Release);
                self.go[next].store(true, Ordering::Release);
                os.unpark();
            }
            Ok(None) => {
                st.finished = true;
                self.cv.notify_all();
            }
            Err(f) => {
                if st.failure.is_none() {
                    st.failure = Some(f);
                }
                self.cv.notify_all();
                drop(st);
                park_forever();
            }
        }
    }

    // ---- spawning -----------------------------------------------------------

    /// Creates a simulated thread running `f`. Called by the shim's `spawn`
    /// on a simulated thread; a scheduling point for the parent.
    pub(crate) fn spawn(
        self: &'static Sim,
        me: usize,
        name: Option<String>,
        stack_size: Option<usize>,
        f: Box<dyn FnOnce() + Send>,
    ) -> Result<usize, std::io::Error> {
        // Step 1: reserve a tid (no scheduling point; only `me` is running).
        let child = {
            let mut st = self.lock();
            if st.failure.is_some() {
                drop(st);
                park_forever();
            }
            if st.threads.len() >= MAX_THREADS {
                self.fail(st, Failure::TooManyThreads);
            }
            let child = st.threads.len();
            let mut vc = st.threads[me].vc;
            vc.tick(me);
            st.threads.push(ThreadSt::new(Status::Blocked(Wait::NotStarted), vc, name.clone()));
            st.handles.push(None);
            child
        };
        // Step 2: the OS thread. It waits for its first turn before doing
        // anything.
        // SAFETY of the 'static borrow: see `run` — the Arc<Sim> is owned by
        // every simulated thread for its whole life.
        let sim_arc = unsafe {
            Arc::increment_strong_count(self as *const Sim);
            Arc::from_raw(self as *const Sim)
        };
        let mut b = std::thread::Builder::new()
            .stack_size(stack_size.unwrap_or(512 * 1024).max(256 * 1024));
        if let Some(n) = &name {
            b = b.name(n.clone());
        }
        let handle = b.spawn(move || thread_main(sim_arc, child, f))?;
        // Step 3: register and make it runnable (scheduling point).
        let mut handle = Some(handle);
        self.op(me, |st| {
            let h = handle.take().unwrap();
            st.threads[child].os = Some(h.thread().clone());
            st.handles[child] = Some(h);
            st.threads[child].status = Status::Runnable;
            st.tick(me);
            st.log(me, Ev::Spawn { child: child as u8 });
            Step::Done(())
        });
        Ok(child)
    }
}

impl ThreadSt {
    fn new(status: Status, vc: VClock, name: Option<String>) -> Self {
        Self {
            status,
            vc,
            token: false,
            token_vc: VClock::ZERO,
            park_calls: 0,
            yielded: false,
            skipped: 0,
            os: None,
            name,
            pending_acq: VClock::ZERO,
            fence_rel: VClock::ZERO,
            sig: 0xcbf2_9ce4_8422_2325,
        }
    }
}

fn panic_message(p: &(dyn std::any::Any + Send)) -> String {
    if let Some(s) = p.downcast_ref::<&'static str>() {
        (*s).to_string()
    } else if let Some(s) = p.downcast_ref::<String>() {
        s.clone()
    } else {
        "<non-string panic payload>".to_string()
    }
}

fn thread_main(sim: Arc<Sim>, tid: usize, f: Box<dyn FnOnce() + Send>) {
    CTX.with(|c| c.set((Arc::as_ptr(&sim), tid)));
    sim.wait_turn(tid);
    {
        let mut st = sim.lock();
        st.tick(tid);
        st.log(tid, Ev::Start);
    }
    let result = std::panic::catch_unwind(AssertUnwindSafe(f));
    if let Err(p) = result {
        let msg = panic_message(&*p);
        // Dropping a payload may itself run code; do it before exiting.
        drop(p);
        let mut st = sim.lock();
        st.tick(tid);
        st.log(tid, Ev::ThreadPanic);
        if tid == 0 {
            st.main_panic = Some(msg);
        }
    }
    sim.thread_exit(tid);
    CTX.with(|c| c.set((std::ptr::null(), 0)));
    drop(sim);
}

/// Runs `main` as simulated thread 0 under the given configuration and
/// returns once every simulated thread has finished or the run has failed.
pub fn run(cfg: RunConfig, main: Box<dyn FnOnce() + Send>) -> RunResult {
    let epoch = EPOCH.fetch_add(1, Ordering::Relaxed);
    let strategy = Strategy::new(&cfg.strategy, cfg.seed);
    let mut clock_faults = cfg.faults.clock.clone();
    clock_faults.sort_by_key(|f| f.at_read);
    let st = State {
        threads: vec![ThreadSt::new(Status::Runnable, VClock::ZERO, Some("sim-main".into()))],
        current: 0,
        objects: Vec::new(),
        obj_sig: Vec::new(),
        events: Vec::with_capacity(256),
        decisions: Vec::with_capacity(64),
        steps: 0,
        max_steps: cfg.max_steps,
        strategy,
        failure: None,
        finished: false,
        clock: ClockSt {
            cfg: cfg.clock.clone(),
            now: 0,
            loop_reads: 0,
            stall_left: 0,
            phase: Phase::Loop,
            faults: clock_faults,
        },
        faults: cfg.faults.clone(),
        faults_fired: BTreeMap::new(),
        probes: BTreeMap::new(),
        handles: vec![None],
        cas_weak_calls: 0,
        main_panic: None,
        precision_override: cfg.precision_override,
        overheads: cfg.overheads,
        overhead_measure_ticks: cfg.overhead_measure_ticks,
        overheads_measured: false,
        by_addr: std::collections::HashMap::new(),
        user: cfg.user.clone(),
        precision_reads: 0,
        monitor: cfg.monitor.clone(),
        pending_invariant: None,
        trace: std::env::var_os("DSIM_TRACE").is_some(),
    };
    const F: AtomicBool = AtomicBool::new(false);
    let sim = Arc::new(Sim {
        epoch,
        st: Mutex::new(st),
        cv: Condvar::new(),
        go: [F; MAX_THREADS],
        join_pending: AtomicUsize::new(usize::MAX),
    });

    let s2 = sim.clone();
    let handle = std::thread::Builder::new()
        .name("sim-main".into())
        .stack_size(1024 * 1024)
        .spawn(move || thread_main(s2, 0, main))
        .expect("spawn simulated main thread");
    {
        let mut st = sim.lock();
        st.threads[0].os = Some(handle.thread().clone());
        st.handles[0] = Some(handle);
    }
    sim.go[0].store(true, Ordering::Release);
    sim.lock().threads[0].os.as_ref().unwrap().unpark();

    // Wait for completion or failure.
    let mut st = sim.lock();
    // The watchdog is about *no scheduling point reached*, not about the
    // run's total duration (which the step budget bounds): as long as steps
    // are being taken — however slowly, on an overloaded machine — the
    // deadline moves on.
    let mut deadline = std::time::Instant::now() + cfg.watchdog;
    let mut steps_seen = st.steps;
    loop {
        if st.finished || st.failure.is_some() {
            break;
        }
        let now = std::time::Instant::now();
        if now >= deadline {
            let steps_now = st.steps;
            if steps_now != steps_seen {
                steps_seen = steps_now;
                deadline = now + cfg.watchdog;
                continue;
            }
            st.failure = Some(Failure::Watchdog);
            break;
        }
        let (g, _) = sim
            .cv
            .wait_timeout(st, deadline - now)
            .unwrap_or_else(|e| e.into_inner());
        st = g;
    }
    let finished = st.finished && st.failure.is_none();
    if !finished {
        // Threads of a failed run stay parked for ever (they cannot be
        // unwound: a pool worker's abort guard would run). Keep count, so
        // that callers can bound the number of failing runs per process.
        let left = st.threads.iter().filter(|t| t.status != Status::Finished).count();
        LEAKED_THREADS.fetch_add(left as u64, Ordering::Relaxed);
    }
    let handles: Vec<_> = if finished {
        st.handles.iter_mut().filter_map(|h| h.take()).collect()
    } else {
        Vec::new()
    };
    let mut sync_sig = Fnv::default();
    for s in &st.obj_sig {
        sync_sig.u64(*s);
    }
    for t in &st.threads {
        sync_sig.u64(t.sig);
    }
    let result = RunResult {
        events: std::mem::take(&mut st.events),
        decisions: std::mem::take(&mut st.decisions),
        failure: st.failure.clone(),
        steps: st.steps,
        threads: st.threads.len(),
        ticks: st.clock.now,
        faults_fired: std::mem::take(&mut st.faults_fired),
        probes: std::mem::take(&mut st.probes),
        sync_sig: sync_sig.finish(),
        main_panic: st.main_panic.take(),
        precision_reads: st.precision_reads,
    };
    drop(st);
    for h in handles {
        let _ = h.join();
    }
    result
}

// Used by the shim for object identity.
pub(crate) struct Meta(AtomicU64);

impl Meta {
    pub const fn new() -> Self {
        Self(AtomicU64::new(0))
    }

    /// Returns the model object index for this shim object in the given
    /// simulation, registering it on first use.
    #[inline]
    pub fn get(&self, st: &mut State, epoch: u32, make: impl FnOnce() -> Obj) -> u32 {
        let v = self.0.load(Ordering::Relaxed);
        if (v >> 32) as u32 == epoch {
            return v as u32;
        }
        let addr = self as *const Self as usize;
        if v != 0 {
            // The cache belongs to another simulation: the object outlives
            // simulations — a `static` of the code under test — and several
            // simulations of this process may use it at the same time, each
            // overwriting the cache. Identity then goes by address, per
            // simulation (a static never moves).
            if let Some(&idx) = st.by_addr.get(&addr) {
                self.0.store(((epoch as u64) << 32) | idx as u64, Ordering::Relaxed);
                return idx;
            }
        }
        let idx = st.new_obj(make());
        st.by_addr.insert(addr, idx);
        self.0.store(((epoch as u64) << 32) | idx as u64, Ordering::Relaxed);
        idx
    }
}

// Re-exported for the shim's park implementation.
pub(crate) fn park_model(sim: &Sim, me: usize, timeout: bool) {
    let mut first = true;
    let mut blocked = false;
    sim.op(me, |st| {
        if first {
            first = false;
            st.threads[me].park_calls += 1;
        }
        if st.threads[me].token {
            st.threads[me].token = false;
            let tvc = st.threads[me].token_vc;
            st.threads[me].vc.join(&tvc);
            st.tick(me);
            let how = if blocked { ParkHow::Woken } else { ParkHow::Token };
            st.log(me, Ev::Park { how });
            st.touch_thread(me, me, if blocked { 2 } else { 1 });
            return Step::Done(());
        }
        if !blocked {
            let k = st.threads[me].park_calls - 1;
            if let Some(pos) = st.faults.spurious_parks.iter().position(|&(t, i)| t == me && i == k) {
                st.faults.spurious_parks.remove(pos);
                st.fire("spurious_park_wake");
                st.tick(me);
                st.log(me, Ev::Park { how: ParkHow::Spurious });
                st.touch_thread(me, me, 3);
                st.threads[me].yielded = true;
                return Step::Done(());
            }
            if timeout {
                st.tick(me);
                st.log(me, Ev::Park { how: ParkHow::Timeout });
                st.threads[me].yielded = true;
                return Step::Done(());
            }
        }
        blocked = true;
        Step::Block(Wait::Park)
    })
}

pub(crate) fn unpark_model(sim: &Sim, me: usize, target: usize) {
    sim.op(me, |st| {
        st.tick(me);
        let vc = st.threads[me].vc;
        if target < st.threads.len() {
            let t = &mut st.threads[target];
            if t.token {
                t.token_vc.join(&vc);
            } else {
                t.token = true;
                t.token_vc = vc;
            }
        }
        st.log(me, Ev::Unpark { target: target as u8 });
        st.touch_thread(target, me, 4);
        Step::Done(())
    })
}

impl Sim {
    pub(crate) fn fail_abort(&self, tid: usize) -> ! {
        let st = self.lock();
        self.fail(st, Failure::Abort { tid })
    }
}

/// The per-run harness context, if the calling thread is simulated.
pub fn user() -> Option<Arc<dyn std::any::Any + Send + Sync>> {
    let (s, _) = ctx()?;
    s.lock().user.clone()
}

impl Sim {
    /// Asks the monitor whether `tid` may operate on memory at `addr`; stops
    /// the run if not. Called before the real operation.
    pub(crate) fn pre_touch(&self, tid: usize, addr: usize) {
        let st = self.lock();
        if st.failure.is_some() {
            drop(st);
            park_forever();
        }
        if let Some(m) = &st.monitor {
            if let Some(message) = m.pre_touch(tid, addr) {
                self.fail(st, Failure::Invariant { message });
            }
        }
    }

    pub(crate) fn has_monitor(&self) -> bool {
        // Read without the lock would race with nothing (set once), but the
        // lock is cheap and uncontended.
        self.lock().monitor.is_some()
    }
}
