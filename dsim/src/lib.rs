//! `dsim` — a deterministic simulator for the thread-, clock- and
//! allocator-facing parts of nvzqz/divan.
//!
//! * [`sim`] — the scheduler: real OS threads released one at a time by a
//!   seeded strategy; modelled blocking; deadlock / no-progress detection.
//! * [`shim`] — a drop-in `std` (atomics, `Mutex`, `mpsc`, `park`/`unpark`,
//!   `Barrier`, `spawn`, `process::abort`) whose every operation is a
//!   scheduling point and carries vector clocks for the happens-before audit.
//! * [`clock`] — the virtual counter divan's TSC hook reads.
//! * [`probe`] — workload events appended by harness closures and hooks.
//!
//! The crate has no dependencies; it is linked into the shadow build of divan.

pub const MAX_THREADS: usize = 24;

pub mod clock;
pub mod event;
pub mod probe;
pub mod rng;
pub mod shim;
pub mod sim;
pub mod strategy;
pub mod vclock;
pub mod window;

pub use event::{Ev, Event, UserEv};
pub use sim::{run, Monitor, ClockCfg, ClockFault, ClockFaultKind, Failure, FaultPlan, RunConfig, RunResult};
pub use strategy::StrategySpec;
