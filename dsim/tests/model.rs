//! Model fidelity: every shim primitive against the documented std
//! semantics, the happens-before audit against the C++20 rules, replay
//! exactness, deadlock / no-progress detection, and a differential check of
//! small programs (outcome sets under dsim vs. the outcomes std permits and
//! real threads produce).

use std::{
    collections::BTreeSet,
    sync::{Arc, Mutex as RealMutex},
};

use dsim::{
    event::ParkHow,
    shim::{
        sync::{
            atomic::{AtomicUsize, Ordering},
            mpsc, Barrier, Mutex,
        },
        thread,
    },
    Ev, Failure, FaultPlan, RunConfig, RunResult, StrategySpec,
};

fn run_with(seed: u64, strategy: StrategySpec, faults: FaultPlan, f: impl FnOnce() + Send + 'static) -> RunResult {
    dsim::run(RunConfig { seed, strategy, faults, max_steps: 5_000, ..RunConfig::default() }, Box::new(f))
}

fn seeds() -> impl Iterator<Item = (u64, StrategySpec)> {
    (0..300u64).map(|s| {
        let mut rng = dsim::rng::Rng::new(s);
        (s, StrategySpec::swarm(&mut rng, 3, 40))
    })
}

#[test]
fn park_token_semantics() {
    // unpark before park leaves a token; two unparks leave one token.
    let r = run_with(1, StrategySpec::RunToBlock, FaultPlan::default(), || {
        let me = thread::current();
        me.unpark();
        me.unpark();
        thread::park(); // consumes the single token
        let t = thread::spawn(move || me.unpark());
        thread::park(); // must block until the child unparks
        t.join().unwrap();
    });
    assert!(r.failure.is_none(), "{:?}", r.failure);
    let parks: Vec<ParkHow> = r
        .events
        .iter()
        .filter_map(|e| match e.kind {
            Ev::Park { how } if e.tid == 0 => Some(how),
            _ => None,
        })
        .collect();
    assert_eq!(parks, vec![ParkHow::Token, ParkHow::Woken]);
}

#[test]
fn park_without_token_deadlocks() {
    let r = run_with(1, StrategySpec::RunToBlock, FaultPlan::default(), || {
        thread::park();
    });
    assert!(matches!(r.failure, Some(Failure::Deadlock { .. })), "{:?}", r.failure);
}

#[test]
fn spurious_wakeup_is_injected_only_by_plan() {
    let faults = FaultPlan { spurious_parks: vec![(0, 0)], ..FaultPlan::default() };
    let r = run_with(1, StrategySpec::RunToBlock, faults, || {
        thread::park(); // returns spuriously
    });
    assert!(r.failure.is_none());
    assert_eq!(r.faults_fired.get("spurious_park_wake"), Some(&1));
}

#[test]
fn rendezvous_send_returns_only_after_recv() {
    for (seed, strategy) in seeds() {
        let order = Arc::new(RealMutex::new(Vec::new()));
        let o2 = order.clone();
        let r = run_with(seed, strategy, FaultPlan::default(), move || {
            let (tx, rx) = mpsc::sync_channel::<u32>(0);
            let o3 = o2.clone();
            let t = thread::spawn(move || {
                let v = rx.recv().unwrap();
                o3.lock().unwrap().push(("received", v));
            });
            tx.send(7).unwrap();
            o2.lock().unwrap().push(("send_returned", 7));
            t.join().unwrap();
        });
        assert!(r.failure.is_none(), "{:?}", r.failure);
        // The Recv event precedes the SendDone event in every schedule.
        let recv = r.events.iter().position(|e| matches!(e.kind, Ev::Recv { .. })).unwrap();
        let done = r.events.iter().position(|e| matches!(e.kind, Ev::SendDone { .. })).unwrap();
        assert!(recv < done);
        let _ = order;
    }
}

#[test]
fn send_fails_when_receiver_is_gone_and_returns_the_value() {
    let r = run_with(1, StrategySpec::RunToBlock, FaultPlan::default(), || {
        let (tx, rx) = mpsc::sync_channel::<String>(0);
        drop(rx);
        let e = tx.send("v".to_string()).unwrap_err();
        assert_eq!(e.0, "v");
        let (tx, rx) = mpsc::channel::<u8>();
        drop(tx);
        assert!(rx.recv().is_err());
    });
    assert!(r.failure.is_none() && r.main_panic.is_none(), "{:?} {:?}", r.failure, r.main_panic);
}

#[test]
fn recv_unblocks_when_last_sender_drops() {
    for (seed, strategy) in seeds().take(60) {
        let r = run_with(seed, strategy, FaultPlan::default(), || {
            let (tx, rx) = mpsc::sync_channel::<u8>(0);
            let t = thread::spawn(move || assert!(rx.recv().is_err()));
            drop(tx);
            t.join().unwrap();
        });
        assert!(r.failure.is_none() && r.main_panic.is_none(), "{:?}", r.failure);
    }
}

#[test]
fn mutex_excludes_and_poisons_on_unwind() {
    for (seed, strategy) in seeds().take(100) {
        let r = run_with(seed, strategy, FaultPlan::default(), || {
            let m = Arc::new(Mutex::new(0u32));
            let inside = Arc::new(std::sync::atomic::AtomicBool::new(false));
            let hs: Vec<_> = (0..2)
                .map(|_| {
                    let (m, inside) = (m.clone(), inside.clone());
                    thread::spawn(move || {
                        let mut g = m.lock().unwrap();
                        assert!(!inside.swap(true, std::sync::atomic::Ordering::SeqCst));
                        *g += 1;
                        thread::yield_now();
                        inside.store(false, std::sync::atomic::Ordering::SeqCst);
                    })
                })
                .collect();
            for h in hs {
                h.join().unwrap();
            }
            assert_eq!(*m.lock().unwrap(), 2);
            // Poisoning.
            let m2 = m.clone();
            let _ = thread::spawn(move || {
                let _g = m2.lock().unwrap();
                std::panic::resume_unwind(Box::new(()));
            })
            .join();
            assert!(m.is_poisoned());
            assert!(m.lock().is_err());
        });
        assert!(r.failure.is_none() && r.main_panic.is_none(), "{:?} {:?}", r.failure, r.main_panic);
    }
}

#[test]
fn barrier_generations_and_single_leader() {
    for (seed, strategy) in seeds().take(100) {
        let leaders = Arc::new(RealMutex::new(vec![0u32; 3]));
        let l2 = leaders.clone();
        let r = run_with(seed, strategy, FaultPlan::default(), move || {
            let b = Arc::new(Barrier::new(3));
            let hs: Vec<_> = (0..2)
                .map(|_| {
                    let (b, l) = (b.clone(), l2.clone());
                    thread::spawn(move || {
                        for g in 0..3 {
                            if b.wait().is_leader() {
                                l.lock().unwrap()[g] += 1;
                            }
                        }
                    })
                })
                .collect();
            for g in 0..3 {
                if b.wait().is_leader() {
                    l2.lock().unwrap()[g] += 1;
                }
            }
            for h in hs {
                h.join().unwrap();
            }
        });
        assert!(r.failure.is_none(), "{:?}", r.failure);
        assert_eq!(*leaders.lock().unwrap(), vec![1, 1, 1]);
        // No thread leaves generation g before all three arrived in it.
        for g in 0..3u32 {
            let last_arrive = r.events.iter().filter(|e| matches!(e.kind, Ev::BarrierArrive { gen, .. } if gen == g)).map(|e| e.seq).max().unwrap();
            let first_leave = r.events.iter().filter(|e| matches!(e.kind, Ev::BarrierLeave { gen, .. } if gen == g)).map(|e| e.seq).min().unwrap();
            assert!(last_arrive < first_leave);
        }
    }
}

#[test]
fn lock_order_inversion_is_found_as_deadlock() {
    let mut found = false;
    for (seed, strategy) in seeds() {
        let r = run_with(seed, strategy, FaultPlan::default(), || {
            let a = Arc::new(Mutex::new(()));
            let b = Arc::new(Mutex::new(()));
            let (a2, b2) = (a.clone(), b.clone());
            let t = thread::spawn(move || {
                let _x = b2.lock().unwrap();
                let _y = a2.lock().unwrap();
            });
            {
                let _x = a.lock().unwrap();
                let _y = b.lock().unwrap();
            }
            t.join().unwrap();
        });
        if matches!(r.failure, Some(Failure::Deadlock { .. })) {
            found = true;
            break;
        }
    }
    assert!(found, "no schedule among 300 seeds exposed the AB/BA deadlock");
}

#[test]
fn spinning_without_progress_is_reported() {
    let r = run_with(1, StrategySpec::RunToBlock, FaultPlan::default(), || {
        let flag = AtomicUsize::new(0);
        while flag.load(Ordering::Acquire) == 0 {
            thread::yield_now();
        }
    });
    assert!(matches!(r.failure, Some(Failure::NoProgress { .. })), "{:?}", r.failure);
}

/// Message passing through an atomic flag: the happens-before audit grants
/// the edge for Release/Acquire and for a release sequence continued by an
/// RMW, and withholds it for Relaxed.
fn mp_edge(store: Ordering, load: Ordering, rmw_between: bool) -> bool {
    let edge = Arc::new(RealMutex::new(None));
    let e2 = edge.clone();
    let r = run_with(7, StrategySpec::RunToBlock, FaultPlan::default(), move || {
        let flag = Arc::new(AtomicUsize::new(0));
        let f2 = flag.clone();
        let t = thread::spawn(move || {
            dsim::probe::event(dsim::UserEv::Mark { tag: 1, a: 0, b: 0 }); // the "write"
            f2.store(1, store);
            if rmw_between {
                f2.fetch_add(1, Ordering::Relaxed);
            }
        });
        // run-to-block: the child runs only when we block; make it run.
        while flag.load(load) == 0 {
            thread::yield_now();
        }
        dsim::probe::event(dsim::UserEv::Mark { tag: 2, a: 0, b: 0 }); // the "read"
        // Joining would add an edge of its own; look at the clocks first.
        let _ = t;
    });
    assert!(matches!(r.failure, None | Some(Failure::Deadlock { .. })), "{:?}", r.failure);
    let w = r.events.iter().find(|e| matches!(e.kind, Ev::User(dsim::UserEv::Mark { tag: 1, .. }))).unwrap();
    let rd = r.events.iter().find(|e| matches!(e.kind, Ev::User(dsim::UserEv::Mark { tag: 2, .. }))).unwrap();
    *e2.lock().unwrap() = Some(w.vc.hb(w.tid as usize, &rd.vc));
    let x = edge.lock().unwrap().unwrap();
    x
}

#[test]
fn happens_before_follows_release_acquire_rules() {
    assert!(mp_edge(Ordering::Release, Ordering::Acquire, false));
    assert!(mp_edge(Ordering::SeqCst, Ordering::SeqCst, false));
    assert!(!mp_edge(Ordering::Relaxed, Ordering::Acquire, false));
    assert!(!mp_edge(Ordering::Release, Ordering::Relaxed, false));
    // A relaxed RMW continues the release sequence headed by the store.
    assert!(mp_edge(Ordering::Release, Ordering::Acquire, true));
}

#[test]
fn replay_reproduces_the_history_exactly() {
    let program = || {
        let c = Arc::new(AtomicUsize::new(0));
        let hs: Vec<_> = (0..3)
            .map(|_| {
                let c = c.clone();
                thread::spawn(move || {
                    for _ in 0..4 {
                        c.fetch_add(1, Ordering::AcqRel);
                    }
                })
            })
            .collect();
        for h in hs {
            h.join().unwrap();
        }
    };
    for (seed, strategy) in seeds().take(40) {
        let a = run_with(seed, strategy.clone(), FaultPlan::default(), program);
        let b = run_with(seed, strategy, FaultPlan::default(), program);
        assert_eq!(a.determinism_hash(), b.determinism_hash());
        // From the recorded choices, without any PRNG.
        let c = run_with(0, StrategySpec::Recorded { choices: a.choices() }, FaultPlan::default(), program);
        assert_eq!(a.determinism_hash(), c.determinism_hash());
        // And from the deviations against run-to-block.
        let d = run_with(0, StrategySpec::Deviations { list: a.deviations() }, FaultPlan::default(), program);
        assert_eq!(a.determinism_hash(), d.determinism_hash());
    }
}

/// Differential: the set of outcomes dsim reaches for a small racy program
/// equals the set sequential consistency permits, and contains every outcome
/// real std threads produce.
#[test]
fn differential_outcome_sets() {
    // Two threads: r1 = x; y = 1  ||  r2 = y; x = 1. SC permits
    // (0,0), (0,1), (1,0) and never (1,1).
    fn program_sim() -> (usize, usize) {
        let x = Arc::new(AtomicUsize::new(0));
        let y = Arc::new(AtomicUsize::new(0));
        let (x2, y2) = (x.clone(), y.clone());
        let t = thread::spawn(move || {
            let r2 = y2.load(Ordering::SeqCst);
            x2.store(1, Ordering::SeqCst);
            r2
        });
        let r1 = x.load(Ordering::SeqCst);
        y.store(1, Ordering::SeqCst);
        (r1, t.join().unwrap())
    }
    let mut sim: BTreeSet<(usize, usize)> = BTreeSet::new();
    for (seed, strategy) in seeds() {
        let out = Arc::new(RealMutex::new(None));
        let o2 = out.clone();
        let r = run_with(seed, strategy, FaultPlan::default(), move || {
            *o2.lock().unwrap() = Some(program_sim());
        });
        assert!(r.failure.is_none());
        sim.insert(out.lock().unwrap().unwrap());
    }
    let permitted: BTreeSet<(usize, usize)> = [(0, 0), (0, 1), (1, 0)].into_iter().collect();
    assert_eq!(sim, permitted, "dsim must reach exactly the SC outcomes");

    // Real threads (pass-through shim: no simulation active here).
    let mut real: BTreeSet<(usize, usize)> = BTreeSet::new();
    for _ in 0..200 {
        real.insert(program_sim());
    }
    assert!(real.is_subset(&permitted), "real std produced {real:?}");
}

#[test]
fn pass_through_outside_a_simulation() {
    // No simulation active: the shim is plain std.
    let m = Mutex::new(1);
    *m.lock().unwrap() += 1;
    assert_eq!(*m.lock().unwrap(), 2);
    let (tx, rx) = mpsc::sync_channel::<u8>(1);
    tx.send(3).unwrap();
    assert_eq!(rx.recv().unwrap(), 3);
    let b = Barrier::new(1);
    assert!(b.wait().is_leader());
    let t = thread::spawn(|| 5);
    assert_eq!(t.join().unwrap(), 5);
    thread::current().unpark();
    thread::park();
}

#[test]
fn condvar_wait_and_notify() {
    use dsim::shim::sync::Condvar;
    for (seed, strategy) in seeds().take(150) {
        let r = run_with(seed, strategy, FaultPlan::default(), || {
            let pair = Arc::new((Mutex::new(0u32), Condvar::new()));
            let hs: Vec<_> = (0..2)
                .map(|_| {
                    let pair = pair.clone();
                    thread::spawn(move || {
                        let (m, cv) = &*pair;
                        let mut g = m.lock().unwrap();
                        *g += 1;
                        cv.notify_all();
                        drop(g);
                    })
                })
                .collect();
            let (m, cv) = &*pair;
            let mut g = m.lock().unwrap();
            while *g < 2 {
                g = cv.wait(g).unwrap();
            }
            drop(g);
            for h in hs {
                h.join().unwrap();
            }
        });
        assert!(r.failure.is_none() && r.main_panic.is_none(), "{:?} {:?}", r.failure, r.main_panic);
    }
    // A wait nobody notifies is a deadlock, not a hang.
    let r = run_with(1, StrategySpec::RunToBlock, FaultPlan::default(), || {
        let m = Mutex::new(());
        let cv = Condvar::new();
        let g = m.lock().unwrap();
        let _g = cv.wait(g);
    });
    assert!(matches!(r.failure, Some(Failure::Deadlock { .. })), "{:?}", r.failure);
}

/// `Condvar::wait_timeout`: a notification that is already pending is
/// consumed (no time-out); without one the wait times out after giving the
/// other thread a turn; the producer/consumer pair terminates under every
/// sampled schedule.
#[test]
fn condvar_wait_timeout_model() {
    use dsim::shim::sync::{Condvar, Mutex};
    use std::sync::Arc;
    for seed in 0..200u64 {
        let cfg = dsim::RunConfig {
            seed,
            strategy: dsim::StrategySpec::Random { switch_permille: 500 },
            ..dsim::RunConfig::default()
        };
        let r = dsim::run(
            cfg,
            Box::new(|| {
                let pair = Arc::new((Mutex::new(false), Condvar::new()));
                let p2 = pair.clone();
                let h = dsim::shim::thread::spawn(move || {
                    *p2.0.lock().unwrap() = true;
                    p2.1.notify_one();
                });
                let mut g = pair.0.lock().unwrap();
                let mut timeouts = 0u32;
                while !*g {
                    let (g2, r) = pair.1.wait_timeout(g, std::time::Duration::from_millis(1)).unwrap();
                    g = g2;
                    if r.timed_out() {
                        timeouts += 1;
                    }
                    assert!(timeouts < 10_000);
                }
                drop(g);
                h.join().unwrap();
                let g = pair.0.lock().unwrap();
                let (g, r) = pair.1.wait_timeout_while(g, std::time::Duration::from_millis(1), |ready| !*ready).unwrap();
                assert!(*g && !r.timed_out());
            }),
        );
        assert!(r.failure.is_none(), "seed {seed}: {:?}", r.failure);
    }
}

/// A spurious `Condvar::wait` wake-up (fault plan) breaks a waiter that
/// checks its predicate with `if`, and not one that loops.
#[test]
fn condvar_spurious_wakeup_fault() {
    use dsim::shim::sync::{Condvar, Mutex};
    use std::sync::{atomic::{AtomicBool, Ordering}, Arc};
    let run = |looping: bool| {
        let wrong = Arc::new(AtomicBool::new(false));
        let w2 = wrong.clone();
        let cfg = dsim::RunConfig {
            seed: 7,
            strategy: dsim::StrategySpec::RunToBlock,
            faults: dsim::FaultPlan { spurious_parks: vec![(0, 0)], ..dsim::FaultPlan::default() },
            ..dsim::RunConfig::default()
        };
        let r = dsim::run(
            cfg,
            Box::new(move || {
                let pair = Arc::new((Mutex::new(false), Condvar::new()));
                let mut g = pair.0.lock().unwrap();
                let p2 = pair.clone();
                let h = dsim::shim::thread::spawn(move || {
                    dsim::shim::thread::yield_now();
                    *p2.0.lock().unwrap() = true;
                    p2.1.notify_one();
                });
                if looping {
                    while !*g {
                        g = pair.1.wait(g).unwrap();
                    }
                } else if !*g {
                    g = pair.1.wait(g).unwrap();
                }
                if !*g {
                    w2.store(true, Ordering::Relaxed);
                }
                drop(g);
                h.join().unwrap();
            }),
        );
        assert!(r.failure.is_none(), "{:?}", r.failure);
        wrong.load(Ordering::Relaxed)
    };
    assert!(run(false), "the `if` waiter must be broken by the spurious wake-up");
    assert!(!run(true), "the looping waiter must survive it");
}

/// Two threads spin with `yield_now` on a flag a third thread sets; under
/// every strategy — also priority-based ones that never prefer the third
/// thread — the run terminates (yield marks keep spinners from handing the
/// turn to each other for ever).
#[test]
fn spinners_do_not_starve_a_third_thread() {
    use dsim::shim::sync::atomic::{AtomicUsize, Ordering};
    use std::sync::Arc;
    let strategies = [
        dsim::StrategySpec::RunToBlock,
        dsim::StrategySpec::Random { switch_permille: 50 },
        dsim::StrategySpec::Pct { depth: 3, est_len: 200 },
        dsim::StrategySpec::Starve { victim: 3, switch_permille: 100 },
        dsim::StrategySpec::Starve { victim: 1, switch_permille: 100 },
    ];
    for (k, strategy) in strategies.into_iter().enumerate() {
        for seed in 0..40u64 {
            let cfg = dsim::RunConfig { seed, strategy: strategy.clone(), max_steps: 5_000, ..dsim::RunConfig::default() };
            let r = dsim::run(
                cfg,
                Box::new(|| {
                    let flag = Arc::new(AtomicUsize::new(0));
                    let mut hs = Vec::new();
                    for _ in 0..2 {
                        let f = flag.clone();
                        hs.push(dsim::shim::thread::spawn(move || {
                            while f.load(Ordering::Acquire) < 20 {
                                dsim::shim::thread::yield_now();
                            }
                        }));
                    }
                    let f = flag.clone();
                    hs.push(dsim::shim::thread::spawn(move || {
                        for _ in 0..20 {
                            f.fetch_add(1, Ordering::Release);
                        }
                    }));
                    for h in hs {
                        h.join().unwrap();
                    }
                }),
            );
            assert!(r.failure.is_none(), "strategy {k} seed {seed}: {:?}", r.failure);
        }
    }
}
